/-
Round trip of the generated (un)marshalers in the model (Model/Codec.lean): for every response type tree without
fold twins and every well-formed value `v` (the shape of the type, canonical leaves, and — for structs with
embedded fragments — one JSON per response key across the struct and its fragments, which is what decoding one
object produces), `dec t (enc t v) = ok v`.
-/
import Genq.Model.Codec
namespace Genq.Codec

open Genq.Types (J)

def isNull : J → Bool
  | .null => true
  | _ => false

/-- one JSON per response key among all the fields of a struct and of its embedded fragments -/
def Coherent (l : List (Nat × String × J)) : Prop :=
  ∀ a ∈ l, ∀ b ∈ l, a.2.1 = b.2.1 → a.2.2 = b.2.2

/-- a leaf as `decLeaf` leaves it -/
def CanonLeaf : Leaf → J → Prop
  | .str, .str _ => True
  | .int, .num tok => isIntTok tok = true ∧ (tok == "-0") = false
  | .float, .num _ => True
  | .bool, .bool _ => True
  | .any, _ => True
  | .custom, _ => True
  | .map, .obj _ => True
  | .map, .null => True
  | _, _ => False

mutual
/-- values of the shape `dec` produces -/
def WF : Ty → Val → Prop
  | .leaf k, .leaf j => CanonLeaf k j
  | .struct fs, .struct vs => WFFields fs vs ∧ Coherent (encAll fs vs 0)
  | .ptr _, .nilPtr => True
  | .ptr t, .ptr v => WF t v ∧ isNull (enc t v) = false
  | .slice _, .nilSlice => True
  | .slice t, .slice vs => ∀ v ∈ vs, WF t v
  | .iface _, .nilIface => True
  | .iface impls, .iface tn v => tn ≠ "" ∧ WFImpl impls tn v
  | _, _ => False
def WFImpl : Impls → String → Val → Prop
  | .nil, _, _ => False
  | .cons n t rest, tn, v => (n = tn ∧ WFImplHead t tn v) ∨ (n ≠ tn ∧ WFImpl rest tn v)
/-- the implementation struct chosen by the switch: well-formed fields, one JSON per key, and its own
    `__typename` field (if it has one) holds the name it was dispatched on -/
def WFImplHead : Ty → String → Val → Prop
  | .struct fs, tn, .struct vs =>
    WFFields fs vs ∧ Coherent (encAll fs vs 0) ∧ (∀ e ∈ encAll fs vs 0, e.2.1 = "__typename" → e.2.2 = .str tn)
  | _, _, _ => False
def WFFields : Flds → List Val → Prop
  | .nil, [] => True
  | .cons _ emb t rest, v :: vs =>
    (if emb then WFEmb t v
     else if special t then WFSpecial t v
     else WF t v) ∧ WFFields rest vs
  | _, _ => False
def WFEmb : Ty → Val → Prop
  | .struct fs, .struct ws => WFFields fs ws
  | _, _ => False
/-- fields handled through json.RawMessage: lists are never nil -/
def WFSpecial : Ty → Val → Prop
  | .slice t, .slice vs => ∀ v ∈ vs, WFSpecial t v
  | .ptr _, .nilPtr => True
  | .ptr t, .ptr v => WF t v ∧ isNull (enc t v) = false
  | .iface _, .nilIface => True
  | .iface impls, .iface tn v => tn ≠ "" ∧ WFImpl impls tn v
  | .leaf k, .leaf j => CanonLeaf k j
  | .struct fs, .struct vs => WFFields fs vs ∧ Coherent (encAll fs vs 0)
  | _, _ => False
end

/-! ### lists -/

theorem mapM_ok {α β : Type} (f : α → Except Err β) (g : β → α) (vs : List β)
    (h : ∀ v ∈ vs, f (g v) = .ok v) : (vs.map g).mapM f = .ok vs := by
  induction vs with
  | nil => rfl
  | cons v vs ih =>
    simp only [List.map_cons, List.mapM_cons]
    rw [h v (List.mem_cons_self), ih (fun w hw => h w (List.mem_cons_of_mem _ hw))]
    rfl

/-! ### leaves -/

theorem decLeaf_canon (k : Leaf) (j : J) (h : CanonLeaf k j) : decLeaf k j = .ok (.leaf j) := by
  cases k <;> cases j <;> simp_all [CanonLeaf, decLeaf, zeroJ]

/-! ### sortDepth / dedup / winners -/

theorem mem_insDepth (e x : Nat × String × J) (l : List (Nat × String × J)) :
    x ∈ insDepth e l ↔ x = e ∨ x ∈ l := by
  induction l with
  | nil => simp [insDepth]
  | cons y ys ih =>
    simp only [insDepth]
    split
    · simp
    · simp only [List.mem_cons, ih]
      constructor
      · rintro (h | h | h)
        · exact Or.inr (Or.inl h)
        · exact Or.inl h
        · exact Or.inr (Or.inr h)
      · rintro (h | h | h)
        · exact Or.inr (Or.inl h)
        · exact Or.inl h
        · exact Or.inr (Or.inr h)

theorem mem_sortDepth (x : Nat × String × J) (l : List (Nat × String × J)) : x ∈ sortDepth l ↔ x ∈ l := by
  induction l with
  | nil => simp [sortDepth]
  | cons y ys ih => simp only [sortDepth, mem_insDepth, ih, List.mem_cons]

/-- soundness: what `dedup` keeps comes from the list, under a name not seen before -/
theorem dedup_sound (l : List (Nat × String × J)) (seen : List String) (n : String) (j : J)
    (h : (n, j) ∈ dedup l seen) : (∃ d, (d, n, j) ∈ l) ∧ n ∉ seen := by
  induction l generalizing seen with
  | nil => simp [dedup] at h
  | cons e es ih =>
    obtain ⟨d, m, k⟩ := e
    simp only [dedup] at h
    split at h
    · obtain ⟨⟨d', hd⟩, hs⟩ := ih seen h
      exact ⟨⟨d', List.mem_cons_of_mem _ hd⟩, hs⟩
    · rename_i hc
      rcases List.mem_cons.1 h with h1 | h1
      · cases h1
        exact ⟨⟨d, List.mem_cons_self⟩, fun hm => hc (List.contains_iff_mem.2 hm)⟩
      · obtain ⟨⟨d', hd⟩, hs⟩ := ih (m :: seen) h1
        exact ⟨⟨d', List.mem_cons_of_mem _ hd⟩, fun hm => hs (List.mem_cons_of_mem _ hm)⟩

/-- completeness: every name of the list that was not seen before is kept, with the JSON of one of its entries -/
theorem dedup_complete (l : List (Nat × String × J)) (seen : List String) (d : Nat) (n : String) (j : J)
    (h : (d, n, j) ∈ l) (hs : n ∉ seen) : ∃ j', (n, j') ∈ dedup l seen := by
  induction l generalizing seen with
  | nil => cases h
  | cons e es ih =>
    obtain ⟨d', m, k⟩ := e
    simp only [dedup]
    split
    · rename_i hc
      rcases List.mem_cons.1 h with h1 | h1
      · cases h1; exact absurd (List.contains_iff_mem.1 hc) hs
      · exact ih seen h1 hs
    · rcases List.mem_cons.1 h with h1 | h1
      · cases h1; exact ⟨_, List.mem_cons_self⟩
      · by_cases hmn : m = n
        · subst hmn; exact ⟨k, List.mem_cons_self⟩
        · obtain ⟨j', hj'⟩ := ih (m :: seen) h1 (by
            intro hm
            rcases List.mem_cons.1 hm with h2 | h2
            · exact hmn h2.symm
            · exact hs h2)
          exact ⟨j', List.mem_cons_of_mem _ hj'⟩

/-- the kept names are pairwise different -/
theorem dedup_nodup (l : List (Nat × String × J)) (seen : List String) : ((dedup l seen).map (·.1)).Nodup := by
  induction l generalizing seen with
  | nil => simp [dedup]
  | cons e es ih =>
    obtain ⟨d, m, k⟩ := e
    simp only [dedup]
    split
    · exact ih seen
    · simp only [List.map_cons, List.nodup_cons]
      refine ⟨?_, ih (m :: seen)⟩
      intro hm
      obtain ⟨⟨m', j'⟩, hmem, heq⟩ := List.mem_map.1 hm
      simp only at heq
      subst heq
      exact (dedup_sound es (m' :: seen) m' j' hmem).2 List.mem_cons_self

/-- in a list whose keys are pairwise different and never differ only in case from `n`, the field named `n` reads its own entry -/
theorem lookup_of_mem (l : List (String × J)) (n : String) (j : J)
    (hnd : (l.map (·.1)).Nodup) (hfold : ∀ kv ∈ l, keyEq kv.1 n = true → kv.1 = n)
    (hm : (n, j) ∈ l) : lookup l n = some j := by
  induction l with
  | nil => cases hm
  | cons kv rest ih =>
    obtain ⟨k, v⟩ := kv
    simp only [List.map_cons, List.nodup_cons] at hnd
    simp only [lookup]
    rcases List.mem_cons.1 hm with h1 | h1
    · cases h1
      -- the entry itself: nothing later is named n
      have hnone : lookup rest n = none := by
        clear ih hm
        induction rest with
        | nil => rfl
        | cons kv2 r2 ih2 =>
          obtain ⟨k2, v2⟩ := kv2
          simp only [lookup]
          have hk2 : k2 ≠ n := by
            intro he; subst he
            exact hnd.1 (by simp)
          rw [ih2 (by
                refine ⟨fun hm => hnd.1 (by simp only [List.map_cons, List.mem_cons]; exact Or.inr hm), ?_⟩
                have := hnd.2
                simp only [List.map_cons, List.nodup_cons] at this
                exact this.2)
              (fun kv hkv => hfold kv (by
                rcases List.mem_cons.1 hkv with h | h
                · exact h ▸ List.mem_cons_self
                · exact List.mem_cons_of_mem _ (List.mem_cons_of_mem _ h)))]
          have : keyEq k2 n = false := by
            cases hk : keyEq k2 n with
            | false => rfl
            | true => exact absurd (hfold (k2, v2) (List.mem_cons_of_mem _ List.mem_cons_self) hk) hk2
          simp [this]
      rw [hnone]
      simp [keyEq]
    · rw [ih hnd.2 (fun kv hkv => hfold kv (List.mem_cons_of_mem _ hkv)) h1]

/-! ### what a marshaled struct lets each of its fields read back -/

mutual
theorem encAll_names : ∀ (fs : Flds) (vs : List Val) (d : Nat) (e : Nat × String × J),
    e ∈ encAll fs vs d → e.2.1 ∈ closureNames fs
  | .nil, _, _, e, h => by simp [encAll] at h
  | .cons _ _ _ _, [], _, e, h => by simp [encAll] at h
  | .cons n emb t rest, v :: vs, d, e, h => by
    simp only [encAll] at h
    simp only [closureNames]
    rcases List.mem_append.1 h with h1 | h1
    · apply List.mem_append_left
      by_cases hemb : emb = true
      · simp only [hemb, if_true] at h1 ⊢
        exact encEmb_names t v (d + 1) e h1
      · simp only [hemb, Bool.false_eq_true, if_false] at h1 ⊢
        split at h1 <;> simp at h1 <;> simp [h1]
    · exact List.mem_append_right _ (encAll_names rest vs d e h1)
theorem encEmb_names : ∀ (t : Ty) (v : Val) (d : Nat) (e : Nat × String × J),
    e ∈ encEmb t v d → e.2.1 ∈ embNames t
  | .struct fs, .struct ws, d, e, h => by
    simp only [encEmb] at h
    simp only [embNames]
    exact encAll_names fs ws d e h
  | .struct _, .leaf _, _, _, h | .struct _, .nilPtr, _, _, h | .struct _, .ptr _, _, _, h | .struct _, .nilSlice, _, _, h
  | .struct _, .slice _, _, _, h | .struct _, .nilIface, _, _, h | .struct _, .iface _ _, _, _, h => by simp [encEmb] at h
  | .leaf _, _, _, _, h | .ptr _, _, _, _, h | .slice _, _, _, _, h | .iface _, _, _, _, h => by simp [encEmb] at h
end

theorem noFoldTwinsIn_spec (names : List String) (h : noFoldTwinsIn names = true) (a b : String)
    (ha : a ∈ names) (hb : b ∈ names) (hk : keyEq a b = true) : a = b := by
  unfold noFoldTwinsIn at h
  have := (List.all_eq_true.1 h) a ha
  have := (List.all_eq_true.1 this) b hb
  simp only [Bool.or_eq_true, beq_iff_eq, bne_iff_ne, ne_eq] at this
  rcases this with h1 | h1
  · exact h1
  · unfold keyEq at hk
    simp only [Bool.or_eq_true, beq_iff_eq] at hk
    rcases hk with h2 | h2
    · exact h2
    · exact absurd h2 h1

/-- **the marshaled object covers every field**: under one-JSON-per-key and without fold twins, every field of
    the struct and of its embedded fragments reads back, from the marshaled object, exactly the JSON written for it -/
theorem winners_covers (all : List (Nat × String × J)) (names : List String)
    (hn : ∀ e ∈ all, e.2.1 ∈ names) (hf : noFoldTwinsIn names = true) (hc : Coherent all)
    (d : Nat) (n : String) (j : J) (h : (d, n, j) ∈ all) : lookup (winners all) n = some j := by
  unfold winners
  have hs : (d, n, j) ∈ sortDepth all := (mem_sortDepth _ _).2 h
  obtain ⟨j', hj'⟩ := dedup_complete (sortDepth all) [] d n j hs (by simp)
  obtain ⟨⟨d', hd'⟩, _⟩ := dedup_sound (sortDepth all) [] n j' hj'
  have hd'' : (d', n, j') ∈ all := (mem_sortDepth _ _).1 hd'
  have hjj : j' = j := hc (d', n, j') hd'' (d, n, j) h rfl
  subst hjj
  apply lookup_of_mem _ _ _ (dedup_nodup _ _) _ hj'
  intro kv hkv hk
  obtain ⟨k, v⟩ := kv
  obtain ⟨⟨dk, hdk⟩, _⟩ := dedup_sound (sortDepth all) [] k v hkv
  have hk1 : k ∈ names := hn _ ((mem_sortDepth _ _).1 hdk)
  have hn1 : n ∈ names := hn _ h
  exact noFoldTwinsIn_spec names hf k n hk1 hn1 hk

/-! ### the round trip -/

def Covers (o : List (String × J)) (l : List (Nat × String × J)) : Prop :=
  ∀ e ∈ l, lookup o e.2.1 = some e.2.2

theorem dec_ptr_nonnull (t : Ty) (j : J) (h : isNull j = false) : dec (.ptr t) j = (dec t j).map .ptr := by
  cases j <;> simp_all [dec, isNull]

theorem decSpecial_ptr_nonnull (t : Ty) (j : J) (h : isNull j = false) : decSpecial (.ptr t) j = (dec t j).map .ptr := by
  cases j <;> simp_all [decSpecial, isNull]

theorem lookup_none (l : List (String × J)) (n : String) (h : ∀ kv ∈ l, keyEq kv.1 n = false) : lookup l n = none := by
  induction l with
  | nil => rfl
  | cons kv rest ih =>
    obtain ⟨k, v⟩ := kv
    simp only [lookup]
    rw [ih (fun kv hkv => h kv (List.mem_cons_of_mem _ hkv))]
    have := h (k, v) List.mem_cons_self
    simp only at this
    simp [this]

/-- dropping entries whose key cannot match `n` does not change what `n` reads -/
theorem lookup_filter (l : List (String × J)) (p : String × J → Bool) (n : String)
    (h : ∀ kv ∈ l, p kv = false → keyEq kv.1 n = false) : lookup (l.filter p) n = lookup l n := by
  induction l with
  | nil => rfl
  | cons kv rest ih =>
    obtain ⟨k, v⟩ := kv
    have ih' := ih (fun kv hkv => h kv (List.mem_cons_of_mem _ hkv))
    cases hp : p (k, v) with
    | true =>
      rw [List.filter_cons_of_pos (by simpa using hp)]
      simp only [lookup, ih']
    | false =>
      rw [List.filter_cons_of_neg (by simp [hp])]
      have := h (k, v) List.mem_cons_self hp
      simp only at this
      simp only [lookup, ih', this]
      cases lookup rest n <;> simp

theorem except_map_ok {α β : Type} (f : α → β) (x : Except Err α) (a : α) (h : x = .ok a) : x.map f = .ok (f a) := by
  subst h; rfl

/-! Case lemmas, each with the facts about smaller types it needs as hypotheses; the mutual recursion below only
    wires them together. -/

abbrev RTy (t : Ty) : Prop := ∀ w : Val, WF t w → noFoldTwins t = true → dec t (enc t w) = .ok w
abbrev RSp (t : Ty) : Prop := ∀ w : Val, WFSpecial t w → noFoldTwins t = true → decSpecial t (encSpecial t w) = .ok w
abbrev RFs (fs : Flds) : Prop := ∀ (vs : List Val) (d : Nat) (o : List (String × J)),
  WFFields fs vs → noFoldTwinsFs fs = true → Covers o (encAll fs vs d) → decFields fs o = .ok vs
abbrev REmb (t : Ty) : Prop := ∀ (v : Val) (d : Nat) (o : List (String × J)),
  WFEmb t v → noFoldTwins t = true → Covers o (encEmb t v d) → dec t (.obj o) = .ok v
abbrev RIm (impls : Impls) : Prop := ∀ (tn : String) (v : Val), WFImpl impls tn v → noFoldTwinsIs impls = true →
  ∃ o, encImpl impls tn v = .obj o ∧ typenameOf o = .ok tn ∧ decImpl impls tn (.obj o) = .ok (.iface tn v)

theorem c_leaf (k : Leaf) : RTy (.leaf k) := by
  intro v h _
  cases v with
  | leaf j => simp only [enc, dec]; exact decLeaf_canon k j (by simpa only [WF] using h)
  | _ => simp [WF] at h

theorem structCovers (fs : Flds) (vs : List Val) (hf : noFoldTwinsIn ("__typename" :: closureNames fs) = true)
    (hc : Coherent (encAll fs vs 0)) : Covers (winners (encAll fs vs 0)) (encAll fs vs 0) := fun e he =>
  winners_covers _ ("__typename" :: closureNames fs) (fun e he => List.mem_cons_of_mem _ (encAll_names fs vs 0 e he))
    hf hc e.1 e.2.1 e.2.2 he

theorem c_struct (fs : Flds) (ihF : RFs fs) : RTy (.struct fs) := by
  intro v h hf
  cases v with
  | struct vs =>
    simp only [WF] at h
    simp only [noFoldTwins, Bool.and_eq_true] at hf
    simp only [enc, dec]
    exact except_map_ok _ _ _ (ihF vs 0 _ h.1 hf.2 (structCovers fs vs hf.1 h.2))
  | _ => simp [WF] at h

theorem c_ptr (t : Ty) (ih : RTy t) : RTy (.ptr t) := by
  intro v h hf
  cases v with
  | nilPtr => simp [enc, dec]
  | ptr w =>
    simp only [WF] at h
    simp only [noFoldTwins] at hf
    simp only [enc]
    rw [dec_ptr_nonnull _ _ h.2]
    exact except_map_ok _ _ _ (ih w h.1 hf)
  | _ => simp [WF] at h

theorem c_slice (t : Ty) (ih : RTy t) : RTy (.slice t) := by
  intro v h hf
  cases v with
  | nilSlice => simp [enc, dec]
  | slice vs =>
    simp only [WF] at h
    simp only [noFoldTwins] at hf
    simp only [enc, dec]
    exact except_map_ok _ _ _ (mapM_ok (fun x => dec t x) (fun w => enc t w) vs (fun w hw => ih w (h w hw) hf))
  | _ => simp [WF] at h

theorem c_iface (impls : Impls) (ihI : RIm impls) : RTy (.iface impls) := by
  intro v h hf
  cases v with
  | nilIface => simp [enc, dec]
  | iface tn w =>
    simp only [WF] at h
    simp only [noFoldTwins] at hf
    obtain ⟨o, ho, htn, hdec⟩ := ihI tn w h.2 hf
    simp only [enc, ho, dec, htn]
    have : (tn == "") = false := by simpa using h.1
    simp only [this, Bool.false_eq_true, if_false]
    exact hdec
  | _ => simp [WF] at h

theorem c_impl_nil : RIm .nil := by
  intro tn v h _
  simp [WFImpl] at h

theorem c_impl_skip (n : String) (t : Ty) (rest : Impls) (ihR : RIm rest) (tn : String) (v : Val) (hn : ¬ n = tn)
    (h : WFImpl (.cons n t rest) tn v) (hf : noFoldTwinsIs (.cons n t rest) = true) :
    ∃ o, encImpl (.cons n t rest) tn v = .obj o ∧ typenameOf o = .ok tn ∧ decImpl (.cons n t rest) tn (.obj o) = .ok (.iface tn v) := by
  simp only [noFoldTwinsIs, Bool.and_eq_true] at hf
  simp only [WFImpl] at h
  have h : WFImpl rest tn v := by
    rcases h with ⟨h1, _⟩ | ⟨_, h2⟩
    · exact absurd h1 hn
    · exact h2
  obtain ⟨o, ho, htn, hdec⟩ := ihR tn v h hf.2
  have hb : (n == tn) = false := by simpa using hn
  exact ⟨o, by simp only [encImpl, hb, Bool.false_eq_true, if_false]; exact ho, htn,
    by simp only [decImpl, hb, Bool.false_eq_true, if_false]; exact hdec⟩

theorem c_impl_other (n : String) (t : Ty) (rest : Impls) (ht : ∀ fs, t ≠ .struct fs) (ihR : RIm rest) : RIm (.cons n t rest) := by
  intro tn v h hf
  by_cases hn : n = tn
  · subst hn
    simp only [WFImpl] at h
    rcases h with ⟨_, h1⟩ | ⟨h2, _⟩
    · cases t with
      | struct fs => exact absurd rfl (ht fs)
      | _ => simp [WFImplHead] at h1
    · exact absurd rfl h2
  · exact c_impl_skip n t rest ihR tn v hn h hf

theorem c_impl_struct (n : String) (fs : Flds) (rest : Impls) (ihF : RFs fs) (ihR : RIm rest) : RIm (.cons n (.struct fs) rest) := by
  intro tn v h hf
  by_cases hn : n = tn
  · subst hn
    simp only [noFoldTwinsIs, Bool.and_eq_true] at hf
    simp only [WFImpl] at h
    have h : WFImplHead (.struct fs) n v := by
      rcases h with ⟨_, h1⟩ | ⟨h2, _⟩
      · exact h1
      · exact absurd rfl h2
    cases v with
    | struct vs =>
      simp only [WFImplHead] at h
      obtain ⟨hw, hc, hty⟩ := h
      have hft := hf.1
      simp only [noFoldTwins, Bool.and_eq_true] at hft
      have hnames : ∀ e ∈ encAll fs vs 0, e.2.1 ∈ "__typename" :: closureNames fs :=
        fun e he => List.mem_cons_of_mem _ (encAll_names fs vs 0 e he)
      -- keys of the filtered winners never match __typename
      have hkeys : ∀ kv ∈ (winners (encAll fs vs 0)).filter (fun kv => kv.1 != "__typename"), keyEq kv.1 "__typename" = false := by
        intro kv hkv
        obtain ⟨hmem, hne⟩ := List.mem_filter.1 hkv
        obtain ⟨k, x⟩ := kv
        obtain ⟨⟨d, hd⟩, _⟩ := dedup_sound _ _ k x hmem
        have hk : k ∈ "__typename" :: closureNames fs := hnames _ ((mem_sortDepth _ _).1 hd)
        cases hke : keyEq k "__typename" with
        | false => rfl
        | true =>
          have := noFoldTwinsIn_spec _ hft.1 k "__typename" hk List.mem_cons_self hke
          simp [this] at hne
      refine ⟨("__typename", .str n) :: (winners (encAll fs vs 0)).filter (fun kv => kv.1 != "__typename"),
        by simp only [encImpl, beq_self_eq_true, if_true, encHead], ?_, ?_⟩
      · simp only [typenameOf, lookup, lookup_none _ _ hkeys]
        simp [keyEq]
      · simp only [decImpl, beq_self_eq_true, if_true, dec]
        apply except_map_ok
        apply except_map_ok
        apply ihF vs 0 _ hw hft.2
        intro e he
        obtain ⟨d, m, j⟩ := e
        simp only
        by_cases hm : m = "__typename"
        · subst hm
          have := hty _ he rfl
          simp only at this
          subst this
          simp only [lookup, lookup_none _ _ hkeys]
          simp [keyEq]
        · have hcov := winners_covers _ ("__typename" :: closureNames fs) hnames hft.1 hc d m j he
          have hmn : m ∈ "__typename" :: closureNames fs := hnames _ he
          have hk0 : keyEq "__typename" m = false := by
            cases hke : keyEq "__typename" m with
            | false => rfl
            | true => exact absurd (noFoldTwinsIn_spec _ hft.1 "__typename" m List.mem_cons_self hmn hke).symm hm
          simp only [lookup]
          rw [lookup_filter _ _ m (by
            intro kv _ hp
            have : kv.1 = "__typename" := by simpa using hp
            rw [this]; exact hk0), hcov]
    | _ => simp [WFImplHead] at h
  · exact c_impl_skip n (.struct fs) rest ihR tn v hn h hf

theorem c_fields_nil : RFs .nil := by
  intro vs _ _ h _ _
  cases vs with
  | nil => simp [decFields]
  | cons _ _ => simp [WFFields] at h

theorem c_fields_cons (n : String) (emb : Bool) (t : Ty) (rest : Flds)
    (ihE : REmb t) (ihS : RSp t) (ihT : RTy t) (ihR : RFs rest) : RFs (.cons n emb t rest) := by
  intro vs d o h hf hc
  cases vs with
  | nil => simp [WFFields] at h
  | cons v vs =>
    simp only [WFFields] at h
    simp only [noFoldTwinsFs, Bool.and_eq_true] at hf
    have hc1 : Covers o (if emb then encEmb t v (d + 1) else if special t then [(d, n, encSpecial t v)] else [(d, n, enc t v)]) :=
      fun e he => hc e (by simp only [encAll]; exact List.mem_append_left _ he)
    have hc2 : Covers o (encAll rest vs d) :=
      fun e he => hc e (by simp only [encAll]; exact List.mem_append_right _ he)
    have hrest := ihR vs d o h.2 hf.2 hc2
    simp only [decFields]
    by_cases hemb : emb = true
    · simp only [hemb, if_true] at h hc1 ⊢
      rw [ihE v (d + 1) o h.1 hf.1 hc1, hrest]
      rfl
    · simp only [hemb, Bool.false_eq_true, if_false] at h hc1 ⊢
      by_cases hsp : special t = true
      · simp only [hsp, if_true] at h hc1 ⊢
        have := hc1 (d, n, encSpecial t v) (by simp)
        simp only at this
        rw [this]
        simp only [Option.getD_some]
        rw [ihS v h.1 hf.1, hrest]
        rfl
      · simp only [hsp, Bool.false_eq_true, if_false] at h hc1 ⊢
        have := hc1 (d, n, enc t v) (by simp)
        simp only at this
        rw [this]
        simp only
        rw [ihT v h.1 hf.1, hrest]
        rfl

theorem c_emb_struct (fs : Flds) (ihF : RFs fs) : REmb (.struct fs) := by
  intro v d o h hf hc
  cases v with
  | struct ws =>
    simp only [WFEmb] at h
    simp only [noFoldTwins, Bool.and_eq_true] at hf
    simp only [encEmb] at hc
    simp only [dec]
    exact except_map_ok _ _ _ (ihF ws d o h hf.2 hc)
  | _ => simp [WFEmb] at h

theorem c_emb_other (t : Ty) (ht : ∀ fs, t ≠ .struct fs) : REmb t := by
  intro v d o h _ _
  cases t with
  | struct fs => exact absurd rfl (ht fs)
  | _ => simp [WFEmb] at h

theorem c_sp_slice (t : Ty) (ih : RSp t) : RSp (.slice t) := by
  intro v h hf
  cases v with
  | slice vs =>
    simp only [WFSpecial] at h
    simp only [noFoldTwins] at hf
    simp only [encSpecial, decSpecial]
    exact except_map_ok _ _ _ (mapM_ok (fun x => decSpecial t x) (fun w => encSpecial t w) vs (fun w hw => ih w (h w hw) hf))
  | _ => simp [WFSpecial] at h

theorem c_sp_ptr (t : Ty) (ih : RTy t) : RSp (.ptr t) := by
  intro v h hf
  cases v with
  | nilPtr => simp [encSpecial, decSpecial]
  | ptr w =>
    simp only [WFSpecial] at h
    simp only [noFoldTwins] at hf
    simp only [encSpecial]
    rw [decSpecial_ptr_nonnull _ _ h.2]
    exact except_map_ok _ _ _ (ih w h.1 hf)
  | _ => simp [WFSpecial] at h

theorem c_sp_iface (impls : Impls) (ihI : RIm impls) : RSp (.iface impls) := by
  intro v h hf
  cases v with
  | nilIface => simp [encSpecial, decSpecial]
  | iface tn w =>
    simp only [WFSpecial] at h
    simp only [noFoldTwins] at hf
    obtain ⟨o, ho, htn, hdec⟩ := ihI tn w h.2 hf
    simp only [encSpecial, ho, decSpecial, htn]
    have : (tn == "") = false := by simpa using h.1
    simp only [this, Bool.false_eq_true, if_false]
    exact hdec
  | _ => simp [WFSpecial] at h

theorem c_sp_leaf (k : Leaf) : RSp (.leaf k) := by
  intro v h _
  cases v with
  | leaf j => simp only [encSpecial, decSpecial]; exact decLeaf_canon k j (by simpa only [WFSpecial] using h)
  | _ => simp [WFSpecial] at h

theorem c_sp_struct (fs : Flds) (ihF : RFs fs) : RSp (.struct fs) := by
  intro v h hf
  cases v with
  | struct vs =>
    simp only [WFSpecial] at h
    simp only [noFoldTwins, Bool.and_eq_true] at hf
    simp only [encSpecial, decSpecial]
    exact except_map_ok _ _ _ (ihF vs 0 _ h.1 hf.2 (structCovers fs vs hf.1 h.2))
  | _ => simp [WFSpecial] at h

mutual
theorem rt : ∀ t : Ty, RTy t
  | .leaf k => c_leaf k
  | .struct fs => c_struct fs (rtFields fs)
  | .ptr t => c_ptr t (rt t)
  | .slice t => c_slice t (rt t)
  | .iface impls => c_iface impls (rtImpl impls)
theorem rtSpecial : ∀ t : Ty, RSp t
  | .leaf k => c_sp_leaf k
  | .struct fs => c_sp_struct fs (rtFields fs)
  | .ptr t => c_sp_ptr t (rt t)
  | .slice t => c_sp_slice t (rtSpecial t)
  | .iface impls => c_sp_iface impls (rtImpl impls)
theorem rtEmb : ∀ t : Ty, REmb t
  | .struct fs => c_emb_struct fs (rtFields fs)
  | .leaf _ => c_emb_other _ (by intro fs h; cases h)
  | .ptr _ => c_emb_other _ (by intro fs h; cases h)
  | .slice _ => c_emb_other _ (by intro fs h; cases h)
  | .iface _ => c_emb_other _ (by intro fs h; cases h)
theorem rtFields : ∀ fs : Flds, RFs fs
  | .nil => c_fields_nil
  | .cons n emb t rest => c_fields_cons n emb t rest (rtEmb t) (rtSpecial t) (rt t) (rtFields rest)
theorem rtImpl : ∀ impls : Impls, RIm impls
  | .nil => c_impl_nil
  | .cons n (.struct fs) rest => c_impl_struct n fs rest (rtFields fs) (rtImpl rest)
  | .cons n (.leaf k) rest => c_impl_other n (.leaf k) rest (by intro fs h; cases h) (rtImpl rest)
  | .cons n (.ptr t) rest => c_impl_other n (.ptr t) rest (by intro fs h; cases h) (rtImpl rest)
  | .cons n (.slice t) rest => c_impl_other n (.slice t) rest (by intro fs h; cases h) (rtImpl rest)
  | .cons n (.iface is) rest => c_impl_other n (.iface is) rest (by intro fs h; cases h) (rtImpl rest)
end

end Genq.Codec
