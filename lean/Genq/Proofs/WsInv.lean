/-
Helper lemmas for the WebSocket model: how each action changes the subscription list, and the
per-entry invariant "the channel was closed exactly as often as the entry's ended flag says".
-/
import Genq.Model.Ws
namespace Genq.Ws

/-- per-entry invariant under the repaired flags -/
def SubOK (s : Sub) : Prop := s.closes = if s.ended then 1 else 0

def SubsOK (subs : List Sub) : Prop := ∀ s ∈ subs, SubOK s

theorem subsOK_set (subs : List Sub) (i : Nat) (s : Sub) (h : SubsOK subs) (hs : SubOK s) :
    SubsOK (subs.set i s) := by
  intro t ht
  rcases List.mem_or_eq_of_mem_set ht with h1 | h1
  · exact h t h1
  · subst h1; exact hs

theorem subsOK_append (subs : List Sub) (s : Sub) (h : SubsOK subs) (hs : SubOK s) :
    SubsOK (subs ++ [s]) := by
  intro t ht
  rcases List.mem_append.1 ht with h1 | h1
  · exact h t h1
  · have := List.mem_singleton.1 h1; subst this; exact hs

theorem getSub_mem (w : World) (i : SubId) (s : Sub) (h : getSub w i = some s) : s ∈ w.subs := by
  unfold getSub at h
  exact List.mem_of_getElem? h

/-- `endSub` under the repaired flags keeps every entry consistent -/
theorem endSub_subsOK (w : World) (i : SubId) (v : Bool) (h : SubsOK w.subs) :
    SubsOK (endSub Flags.fixed w i v).subs := by
  unfold endSub
  cases hg : getSub w i with
  | none => simpa using h
  | some s =>
    simp only [Flags.fixed, if_true]
    by_cases he : s.ended = true
    · simp only [he, if_true]; exact h
    · simp only [he, Bool.false_eq_true, if_false, setSub]
      apply subsOK_set _ _ _ h
      have hs := h s (getSub_mem w i s hg)
      unfold SubOK at hs ⊢
      simp [he] at hs
      simp [hs]

theorem endSub_panic (w : World) (i : SubId) (v : Bool) :
    (endSub Flags.fixed w i v).panic = w.panic := by
  unfold endSub
  cases getSub w i with
  | none => rfl
  | some s =>
    simp only [Flags.fixed, if_true]
    by_cases he : s.ended = true <;> simp [he, setSub]

end Genq.Ws

namespace Genq.Ws

@[simp] theorem setCall_subs (w : World) (c : Nat) (k : Call) : (setCall w c k).subs = w.subs := rfl
@[simp] theorem setCall_panic (w : World) (c : Nat) (k : Call) : (setCall w c k).panic = w.panic := rfl
@[simp] theorem setSub_subs (w : World) (i : Nat) (s : Sub) : (setSub w i s).subs = w.subs.set i s := rfl
@[simp] theorem setSub_panic (w : World) (i : Nat) (s : Sub) : (setSub w i s).panic = w.panic := rfl

@[simp] theorem closeFinal_subs (w : World) : (closeFinal w).subs = w.subs := by
  unfold closeFinal; split <;> rfl

theorem subOK_of_eq (s t : Sub) (h : SubOK s) (hc : t.closes = s.closes) (he : t.ended = s.ended) : SubOK t := by
  unfold SubOK at *; rw [hc, he]; exact h

theorem stepCall_subsOK (w w' : World) (c : Nat) (b : Bool) (h : SubsOK w.subs)
    (hs : stepCall Flags.fixed w c b = some w') : SubsOK w'.subs := by
  unfold stepCall at hs
  repeat' split at hs
  all_goals (try cases hs)
  all_goals first
    | exact h
    | exact endSub_subsOK _ _ _ h
    | (simp only [setCall_subs, closeFinal_subs]; exact h)
    | (apply subsOK_set _ _ _ h
       have hm := getSub_mem _ _ _ ‹getSub w _ = some _›
       exact subOK_of_eq _ _ (h _ hm) rfl rfl)

theorem dispatch_subsOK (w : World) (m : Msg) (h : SubsOK w.subs) : SubsOK (dispatch Flags.fixed w m).subs := by
  unfold dispatch
  repeat' split
  all_goals first
    | exact h
    | exact endSub_subsOK _ _ _ h
    | (apply subsOK_set _ _ _ h
       have hm := getSub_mem _ _ _ ‹getSub w _ = some _›
       exact subOK_of_eq _ _ (h _ hm) rfl rfl)

theorem step_subsOK (w w' : World) (e : Ev) (h : SubsOK w.subs)
    (hs : step Flags.fixed w e = some w') : SubsOK w'.subs := by
  cases e with
  | subscribe =>
    simp only [step, Option.some.injEq] at hs; subst hs
    exact subsOK_append _ _ h (by simp [SubOK])
  | unsubscribe i => simp only [step, Option.some.injEq] at hs; subst hs; exact h
  | close =>
    simp only [step, Flags.fixed, if_true, Option.some.injEq] at hs; subst hs; exact h
  | step c => exact stepCall_subsOK w w' c true h hs
  | stepFail c =>
    simp only [step] at hs
    split at hs
    all_goals first
      | exact stepCall_subsOK w w' c false h hs
      | cases hs
  | server m =>
    simp only [step] at hs
    repeat' split at hs
    all_goals (try cases hs)
    all_goals exact dispatch_subsOK w m h
  | rstep =>
    simp only [step] at hs
    repeat' split at hs
    all_goals (try cases hs)
    all_goals exact h
  | readErr =>
    simp only [step] at hs
    repeat' split at hs
    all_goals (try cases hs)
    all_goals exact h
  | recvData i =>
    simp only [step] at hs
    repeat' split at hs
    all_goals (try cases hs)
    all_goals first
      | exact h
      | (apply subsOK_set _ _ _ h
         have hm := getSub_mem _ _ _ ‹getSub w _ = some _›
         exact subOK_of_eq _ _ (h _ hm) rfl rfl)
  | recvErr =>
    simp only [step] at hs
    repeat' split at hs
    all_goals (try cases hs)
    all_goals exact h

/-- every world reached under the repaired flags keeps every entry consistent -/
theorem run_subsOK (w : World) (evs : List Ev) (h : SubsOK w.subs) : SubsOK (run Flags.fixed w evs).subs := by
  induction evs generalizing w with
  | nil => exact h
  | cons e es ih =>
    simp only [run, List.foldl_cons]
    apply ih
    split
    · exact h
    · cases hs : step Flags.fixed w e with
      | none => simpa using h
      | some w' => simpa using step_subsOK w w' e h hs

end Genq.Ws
