/-
Faithfulness of the generated decoder in the model (Model/Codec.lean) — C02: after decoding one JSON object into
a struct, EVERY carrier of a response key — the field of the struct itself and the field of every embedded
fragment struct (at any embedding depth) that selects the key — holds exactly the decoding, by that field's own
type, of the value the object has for that key.  Nothing is dropped, nothing is read from another key.
-/
import Genq.Model.Codec
namespace Genq.Codec

open Genq.Types (J)

mutual
/-- (JSON name, type) of every field of a struct and of the structs embedded in it -/
def closureFields : Flds → List (String × Ty)
  | .nil => []
  | .cons n emb t rest => (if emb then embFields t else [(n, t)]) ++ closureFields rest
def embFields : Ty → List (String × Ty)
  | .struct fs => closureFields fs
  | _ => []
end

/-- what a field of type `t` holds after decoding an object in which its key reads `x` (`none`: no matching key) -/
def fieldDec (t : Ty) (x : Option J) : Except Err Val :=
  if special t then decSpecial t (x.getD .null)
  else match x with
    | none => .ok (zero t)
    | some j => dec t j

/-- what MarshalJSON writes for that field -/
def fieldEnc (t : Ty) (v : Val) : J := if special t then encSpecial t v else enc t v

abbrev FFs (fs : Flds) : Prop := ∀ (o : List (String × J)) (vs : List Val) (d : Nat), decFields fs o = .ok vs →
  ∀ e ∈ encAll fs vs d, ∃ t v, (e.2.1, t) ∈ closureFields fs ∧ fieldDec t (lookup o e.2.1) = .ok v ∧ e.2.2 = fieldEnc t v
abbrev FEmb (t : Ty) : Prop := ∀ (o : List (String × J)) (v : Val) (d : Nat), dec t (.obj o) = .ok v →
  ∀ e ∈ encEmb t v d, ∃ t' w, (e.2.1, t') ∈ embFields t ∧ fieldDec t' (lookup o e.2.1) = .ok w ∧ e.2.2 = fieldEnc t' w

theorem f_nil : FFs .nil := by
  intro o vs d _ e he
  simp [encAll] at he

theorem bind_ok_inv {α β : Type} (x : Except Err α) (f : α → Except Err β) (b : β)
    (h : (x >>= f) = .ok b) : ∃ a, x = .ok a ∧ f a = .ok b := by
  cases x with
  | error e => simp [bind, Except.bind] at h
  | ok a => exact ⟨a, rfl, h⟩

theorem f_cons (n : String) (emb : Bool) (t : Ty) (rest : Flds) (ihE : FEmb t) (ihR : FFs rest) : FFs (.cons n emb t rest) := by
  intro o vs d h e he
  simp only [decFields] at h
  by_cases hemb : emb = true
  · simp only [hemb, if_true] at h
    obtain ⟨v, h1, h⟩ := bind_ok_inv _ _ _ h
    obtain ⟨ws, h2, h⟩ := bind_ok_inv _ _ _ h
    cases h
    simp only [encAll, hemb, if_true] at he
    rcases List.mem_append.1 he with he1 | he2
    · obtain ⟨t', w, hm, hd, hj⟩ := ihE o v (d + 1) h1 e he1
      exact ⟨t', w, by simp only [closureFields, hemb, if_true]; exact List.mem_append_left _ hm, hd, hj⟩
    · obtain ⟨t', w, hm, hd, hj⟩ := ihR o ws d h2 e he2
      exact ⟨t', w, by simp only [closureFields]; exact List.mem_append_right _ hm, hd, hj⟩
  · simp only [hemb, Bool.false_eq_true, if_false] at h
    by_cases hsp : special t = true
    · simp only [hsp, if_true] at h
      obtain ⟨v, h1, h⟩ := bind_ok_inv _ _ _ h
      obtain ⟨ws, h2, h⟩ := bind_ok_inv _ _ _ h
      cases h
      simp only [encAll, hemb, Bool.false_eq_true, if_false, hsp, if_true] at he
      rcases List.mem_append.1 he with he1 | he2
      · have : e = (d, n, encSpecial t v) := by simpa using he1
        subst this
        exact ⟨t, v, by simp [closureFields, hemb], by simp only [fieldDec, hsp, if_true]; exact h1,
          by simp [fieldEnc, hsp]⟩
      · obtain ⟨t', w, hm, hd, hj⟩ := ihR o ws d h2 e he2
        exact ⟨t', w, by simp only [closureFields]; exact List.mem_append_right _ hm, hd, hj⟩
    · simp only [hsp, Bool.false_eq_true, if_false] at h
      have hhead : ∃ v ws, fieldDec t (lookup o n) = .ok v ∧ decFields rest o = .ok ws ∧ vs = v :: ws := by
        simp only [fieldDec, hsp, Bool.false_eq_true, if_false]
        cases hl : lookup o n with
        | none =>
          rw [hl] at h
          simp only at h
          obtain ⟨v, h1, h⟩ := bind_ok_inv _ _ _ h
          obtain ⟨ws, h2, h⟩ := bind_ok_inv _ _ _ h
          cases h
          exact ⟨v, ws, h1, h2, rfl⟩
        | some j =>
          rw [hl] at h
          simp only at h
          obtain ⟨v, h1, h⟩ := bind_ok_inv _ _ _ h
          obtain ⟨ws, h2, h⟩ := bind_ok_inv _ _ _ h
          cases h
          exact ⟨v, ws, h1, h2, rfl⟩
      obtain ⟨v, ws, h1, h2, hvs⟩ := hhead
      subst hvs
      simp only [encAll, hemb, Bool.false_eq_true, if_false, hsp] at he
      rcases List.mem_append.1 he with he1 | he2
      · have : e = (d, n, enc t v) := by simpa using he1
        subst this
        exact ⟨t, v, by simp [closureFields, hemb], h1, by simp [fieldEnc, hsp]⟩
      · obtain ⟨t', w, hm, hd, hj⟩ := ihR o ws d h2 e he2
        exact ⟨t', w, by simp only [closureFields]; exact List.mem_append_right _ hm, hd, hj⟩

theorem f_emb_struct (fs : Flds) (ihF : FFs fs) : FEmb (.struct fs) := by
  intro o v d h e he
  simp only [dec] at h
  cases hf : decFields fs o with
  | error x => rw [hf] at h; cases h
  | ok ws =>
    rw [hf] at h
    cases h
    simp only [encEmb] at he
    obtain ⟨t', w, hm, hd, hj⟩ := ihF o ws d hf e he
    exact ⟨t', w, by simp only [embFields]; exact hm, hd, hj⟩

theorem f_emb_other (t : Ty) (ht : ∀ fs, t ≠ .struct fs) : FEmb t := by
  intro o v d _ e he
  cases t with
  | struct fs => exact absurd rfl (ht fs)
  | _ => simp [encEmb] at he

mutual
theorem faithfulFields : ∀ fs : Flds, FFs fs
  | .nil => f_nil
  | .cons n emb t rest => f_cons n emb t rest (faithfulEmb t) (faithfulFields rest)
theorem faithfulEmb : ∀ t : Ty, FEmb t
  | .struct fs => f_emb_struct fs (faithfulFields fs)
  | .leaf _ => f_emb_other _ (by intro fs h; cases h)
  | .ptr _ => f_emb_other _ (by intro fs h; cases h)
  | .slice _ => f_emb_other _ (by intro fs h; cases h)
  | .iface _ => f_emb_other _ (by intro fs h; cases h)
end

end Genq.Codec
