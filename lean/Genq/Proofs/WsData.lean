/-
Index-based frame lemmas for the WebSocket model: what a step can do to the entry at index i.
-/
import Genq.Model.Ws
import Genq.Proofs.WsInv
namespace Genq.Ws

/-- how one entry may evolve in one step when nothing is delivered to it -/
def SubStep (s s' : Sub) : Prop :=
  s'.delivered = s.delivered ∧ (s.ended = true → s'.ended = true)

/-- entry i survives the step w ↦ w' with its deliveries untouched -/
def Keeps (w w' : World) (i : SubId) : Prop :=
  ∀ s, w.subs[i]? = some s → ∃ s', w'.subs[i]? = some s' ∧ SubStep s s'

theorem keeps_of_subs_eq (w w' : World) (i : SubId) (h : w'.subs = w.subs) : Keeps w w' i := by
  intro s hs; exact ⟨s, by rw [h]; exact hs, rfl, id⟩

theorem keeps_append (w w' : World) (i : SubId) (t : Sub) (h : w'.subs = w.subs ++ [t]) : Keeps w w' i := by
  intro s hs
  refine ⟨s, ?_, rfl, id⟩
  rw [h, List.getElem?_append_left]
  · exact hs
  · have := List.getElem?_eq_some_iff.1 hs; exact this.1

theorem keeps_set (w w' : World) (i k : SubId) (sk a : Sub) (hk : w.subs[k]? = some sk) (ha : SubStep sk a)
    (h : w'.subs = w.subs.set k a) : Keeps w w' i := by
  intro s hs
  rw [h, List.getElem?_set]
  by_cases hki : k = i
  · subst hki
    have hlt := (List.getElem?_eq_some_iff.1 hk).1
    simp only [if_true, hlt]
    rw [hk] at hs; cases hs
    exact ⟨a, rfl, ha⟩
  · simp only [hki, if_false]
    exact ⟨s, hs, rfl, id⟩

theorem keeps_endSub (w : World) (i k : SubId) (v : Bool) : Keeps w (endSub Flags.fixed w k v) i := by
  unfold endSub
  cases hg : getSub w k with
  | none => exact keeps_of_subs_eq _ _ _ rfl
  | some sk =>
    simp only [Flags.fixed, if_true]
    by_cases he : sk.ended = true
    · simp only [he, if_true]; exact keeps_of_subs_eq _ _ _ rfl
    · simp only [he, Bool.false_eq_true, if_false]
      exact keeps_set w _ i k sk { sk with ended := true, closes := sk.closes + 1 } hg ⟨rfl, fun _ => rfl⟩ rfl

@[simp] theorem endSub_reader (w : World) (k : SubId) (v : Bool) : (endSub Flags.fixed w k v).reader = w.reader := by
  unfold endSub
  cases getSub w k with
  | none => rfl
  | some s => simp only [Flags.fixed, if_true]; by_cases he : s.ended = true <;> simp [he, setSub]

@[simp] theorem setCall_reader (w : World) (c : Nat) (k : Call) : (setCall w c k).reader = w.reader := rfl
@[simp] theorem setSub_reader (w : World) (i : Nat) (s : Sub) : (setSub w i s).reader = w.reader := rfl
@[simp] theorem closeFinal_reader (w : World) : (closeFinal w).reader = w.reader := by
  unfold closeFinal; split <;> rfl

theorem keeps_trans_subs (w w1 w2 : World) (i : SubId) (h1 : Keeps w w1 i) (h2 : w2.subs = w1.subs) : Keeps w w2 i := by
  intro s hs
  obtain ⟨s', h, hh⟩ := h1 s hs
  exact ⟨s', by rw [h2]; exact h, hh⟩

/-- an API call step never delivers anything and never touches the reader -/
theorem stepCall_keeps (w w' : World) (c : Nat) (b : Bool) (i : SubId)
    (hs : stepCall Flags.fixed w c b = some w') : Keeps w w' i ∧ w'.reader = w.reader := by
  unfold stepCall at hs
  repeat' split at hs
  all_goals (try cases hs)
  all_goals refine ⟨?_, by simp⟩
  all_goals first
    | exact keeps_of_subs_eq _ _ _ rfl
    | (refine keeps_of_subs_eq _ _ _ ?_; simp only [setCall_subs, closeFinal_subs]; done)
    | exact keeps_trans_subs _ _ _ _ (keeps_endSub _ _ _ _) rfl
    | (refine keeps_set _ _ _ _ _ _ ‹getSub w _ = some _› ?_ rfl; exact ⟨rfl, id⟩)

end Genq.Ws

namespace Genq.Ws

/-- "entry i has ended and the reader is not in the middle of delivering to it" -/
def Quiet (w : World) (i : SubId) : Prop :=
  (∃ s, w.subs[i]? = some s ∧ s.ended = true) ∧ ∀ p, w.reader ≠ .send i p

theorem quiet_of_keeps (w w' : World) (i : SubId) (hq : Quiet w i) (hk : Keeps w w' i)
    (hr : ∀ p, w'.reader ≠ .send i p) :
    Quiet w' i ∧ ∀ s s', w.subs[i]? = some s → w'.subs[i]? = some s' → s'.delivered = s.delivered := by
  obtain ⟨⟨s, hs, he⟩, _⟩ := hq
  obtain ⟨s', hs', hd, hee⟩ := hk s hs
  refine ⟨⟨⟨s', hs', hee he⟩, hr⟩, ?_⟩
  intro t t' ht ht'
  rw [hs] at ht; rw [hs'] at ht'; cases ht; cases ht'; exact hd

/-- dispatching a frame to an ended entry never starts a delivery to it -/
theorem dispatch_quiet (w : World) (m : Msg) (i : SubId) (hq : Quiet w i) (hr : w.reader = .read) :
    Keeps w (dispatch Flags.fixed w m) i ∧ ∀ p, (dispatch Flags.fixed w m).reader ≠ .send i p := by
  obtain ⟨⟨s, hs, he⟩, _⟩ := hq
  unfold dispatch
  repeat' split
  all_goals refine ⟨?_, ?_⟩
  all_goals first
    | exact keeps_of_subs_eq _ _ _ rfl
    | exact keeps_trans_subs _ _ _ _ (keeps_endSub _ _ _ _) rfl
    | (refine keeps_set _ _ _ _ _ _ ‹getSub w _ = some _› ?_ rfl; exact ⟨rfl, id⟩)
    | (intro p; simp; done)
    | (intro p hp
       simp only [Reader.send.injEq] at hp
       obtain ⟨h1, _⟩ := hp
       subst h1
       simp only [getSub] at *
       simp_all)

end Genq.Ws

namespace Genq.Ws

/-- one step from a quiet entry: it stays quiet and nothing is delivered on it -/
theorem step_quiet (w w' : World) (e : Ev) (i : SubId) (hq : Quiet w i)
    (hs : step Flags.fixed w e = some w') :
    Quiet w' i ∧ ∀ s s', w.subs[i]? = some s → w'.subs[i]? = some s' → s'.delivered = s.delivered := by
  have hq0 := hq
  obtain ⟨⟨s0, hs0, he0⟩, hnr⟩ := hq
  cases e with
  | subscribe =>
    simp only [step, Option.some.injEq] at hs; subst hs
    exact quiet_of_keeps _ _ _ hq0 (keeps_append _ _ _ _ rfl) hnr
  | unsubscribe k =>
    simp only [step, Option.some.injEq] at hs; subst hs
    exact quiet_of_keeps _ _ _ hq0 (keeps_of_subs_eq _ _ _ rfl) hnr
  | close =>
    simp only [step, Flags.fixed, if_true, Option.some.injEq] at hs; subst hs
    exact quiet_of_keeps _ _ _ hq0 (keeps_of_subs_eq _ _ _ rfl) hnr
  | step c =>
    obtain ⟨hk, hr⟩ := stepCall_keeps w w' c true i hs
    exact quiet_of_keeps _ _ _ hq0 hk (by rw [hr]; exact hnr)
  | stepFail c =>
    simp only [step] at hs
    split at hs
    all_goals first
      | cases hs
      | (obtain ⟨hk, hr⟩ := stepCall_keeps w w' c false i hs
         exact quiet_of_keeps _ _ _ hq0 hk (by rw [hr]; exact hnr))
  | server m =>
    simp only [step] at hs
    split at hs
    · split at hs
      · cases hs
      · simp only [Option.some.injEq] at hs; subst hs
        obtain ⟨hk, hr⟩ := dispatch_quiet w m i hq0 ‹w.reader = Reader.read›
        exact quiet_of_keeps _ _ _ hq0 hk hr
    · cases hs
  | rstep =>
    simp only [step] at hs
    repeat' split at hs
    all_goals (try cases hs)
    all_goals exact quiet_of_keeps _ _ _ hq0 (keeps_of_subs_eq _ _ _ rfl) (by intro p; simp)
  | readErr =>
    simp only [step] at hs
    repeat' split at hs
    all_goals (try cases hs)
    all_goals exact quiet_of_keeps _ _ _ hq0 (keeps_of_subs_eq _ _ _ rfl) (by intro p; simp)
  | recvData k =>
    simp only [step] at hs
    repeat' split at hs
    all_goals (try cases hs)
    -- the reader was delivering to k = j; since entry i is quiet, j ≠ i
    rename_i _ j p hrd hkj _ sk hgk hcl
    have hk' : k = j := by simpa using hkj
    subst hk'
    have hji : k ≠ i := by
      intro h; subst h; exact hnr p hrd
    refine quiet_of_keeps _ _ _ hq0 ?_ (by intro q; simp)
    intro s hs1
    refine ⟨s, ?_, rfl, id⟩
    simp only [setSub, List.getElem?_set, hji, if_false]
    exact hs1
  | recvErr =>
    simp only [step] at hs
    repeat' split at hs
    all_goals (try cases hs)
    all_goals refine quiet_of_keeps _ _ _ hq0 (keeps_of_subs_eq _ _ _ rfl) ?_
    all_goals first
      | exact hnr
      | (intro p; simp; done)

/-- along any run from a quiet entry nothing more is delivered on it -/
theorem run_quiet (w : World) (evs : List Ev) (i : SubId) (hq : Quiet w i) :
    Quiet (run Flags.fixed w evs) i ∧
    ∀ s s', w.subs[i]? = some s → (run Flags.fixed w evs).subs[i]? = some s' → s'.delivered = s.delivered := by
  induction evs generalizing w with
  | nil => exact ⟨hq, fun s s' h h' => by simp only [run, List.foldl_nil] at h'; rw [h] at h'; cases h'; rfl⟩
  | cons e es ih =>
    simp only [run, List.foldl_cons]
    by_cases hp : w.panic.isSome = true
    · simp only [hp, if_true]; exact ih w hq
    · simp only [hp, Bool.false_eq_true, if_false]
      cases hs : step Flags.fixed w e with
      | none => simp only [Option.getD_none]; exact ih w hq
      | some w' =>
        simp only [Option.getD_some]
        obtain ⟨hq', hd⟩ := step_quiet w w' e i hq hs
        obtain ⟨hq'', hd'⟩ := ih w' hq'
        refine ⟨hq'', ?_⟩
        intro s s'' h h''
        obtain ⟨⟨t, ht, _⟩, _⟩ := hq'
        rw [hd' t s'' ht h'', hd s t h ht]

end Genq.Ws
