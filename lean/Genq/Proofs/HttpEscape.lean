/-
Lemmas for C11: url.QueryUnescape inverts url.QueryEscape.
-/
import Genq.Model.Http
namespace Genq.Http

section Lemmas

theorem unhex_hexDigit : ∀ n, n < 16 → unhex (hexDigit n) = some n := by
  decide

theorem hexDigit_not_special : ∀ n, n < 16 → hexDigit n ≠ 37 ∧ hexDigit n ≠ 43 := by
  decide

theorem unescape_plain (b : Nat) (r : Bytes) (h37 : b ≠ 37) (h43 : b ≠ 43) :
    queryUnescape (b :: r) = (queryUnescape r).map (b :: ·) := by
  conv => lhs; unfold queryUnescape
  split <;> simp_all

theorem unescape_plus (r : Bytes) :
    queryUnescape (43 :: r) = (queryUnescape r).map (32 :: ·) := by
  rw [queryUnescape]

theorem unescape_pct (h l : Nat) (r : Bytes) (a b : Nat)
    (ha : unhex h = some a) (hb : unhex l = some b) :
    queryUnescape (37 :: h :: l :: r) = (queryUnescape r).map ((a * 16 + b) :: ·) := by
  rw [queryUnescape, ha, hb]
  cases queryUnescape r <;> rfl

theorem unreserved_not_special (b : Nat) (h : unreserved b = true) : b ≠ 37 ∧ b ≠ 43 := by
  constructor <;> (intro e; subst e; revert h; decide)

theorem unescape_escapeByte (b : Nat) (hb : b < 256) (r : Bytes) :
    queryUnescape (escapeByte b ++ r) = (queryUnescape r).map (b :: ·) := by
  unfold escapeByte
  by_cases hu : unreserved b = true
  · have := unreserved_not_special b hu
    simp only [hu, if_true, List.cons_append, List.nil_append]
    exact unescape_plain b r this.1 this.2
  · simp only [hu, Bool.false_eq_true, if_false]
    by_cases hs : (b == 32) = true
    · have : b = 32 := by simpa using hs
      subst this
      simp only [beq_self_eq_true, if_true, List.cons_append, List.nil_append]
      exact unescape_plus r
    · simp only [hs, Bool.false_eq_true, if_false, List.cons_append, List.nil_append]
      have h1 : b / 16 < 16 := by omega
      have h2 : b % 16 < 16 := by omega
      rw [unescape_pct _ _ _ _ _ (unhex_hexDigit _ h1) (unhex_hexDigit _ h2)]
      have : b / 16 * 16 + b % 16 = b := by omega
      rw [this]

end Lemmas

theorem unescape_escape (s : Bytes) (hs : allBytes s = true) :
    queryUnescape (queryEscape s) = some s := by
  induction s with
  | nil => rfl
  | cons b bs ih =>
    have hb : b < 256 := by
      have := hs; simp [allBytes, isByte] at this; exact this.1
    have hbs : allBytes bs = true := by
      have := hs; simp [allBytes, isByte] at this
      simp [allBytes, isByte]; exact this.2
    simp only [queryEscape]
    rw [unescape_escapeByte b hb, ih hbs]
    rfl

end Genq.Http
