/-
Termination of the input-object walk (Model/InputClosure.lean): with fuel above the number of input types not yet
in the type map the walk never runs out of fuel, and the type map only grows.
-/
import Genq.Model.InputClosure
namespace Genq.InputClosure

theorem remaining_mono (U done d : List String) (h : ∀ x ∈ done, x ∈ d) : remaining U d ≤ remaining U done := by
  unfold remaining
  induction U with
  | nil => simp
  | cons u us ih =>
    simp only [List.filter_cons]
    by_cases hu : done.contains u = true
    · have hd : d.contains u = true := List.contains_iff_mem.2 (h u (List.contains_iff_mem.1 hu))
      simp only [hu, hd, Bool.not_true, Bool.false_eq_true, if_false]
      exact ih
    · simp only [hu, Bool.not_false, if_true, Bool.false_eq_true] at *
      by_cases hd : d.contains u = true
      · simp only [hd, Bool.not_true, Bool.false_eq_true, if_false, List.length_cons]
        omega
      · simp only [hd, Bool.not_false, if_true, List.length_cons]
        omega

theorem remaining_cons_lt (U done : List String) (n : String) (hn : n ∈ U) (hd : done.contains n = false) :
    remaining U (n :: done) < remaining U done := by
  unfold remaining
  induction U with
  | nil => cases hn
  | cons u us ih =>
    simp only [List.filter_cons]
    by_cases hun : u = n
    · subst hun
      have h1 : (u :: done).contains u = true := by simp
      simp only [h1, hd, Bool.not_true, Bool.false_eq_true, if_false, Bool.not_false, if_true, List.length_cons]
      have := remaining_mono us done (u :: done) (fun x hx => List.mem_cons_of_mem _ hx)
      unfold remaining at this
      omega
    · have hn' : n ∈ us := by
        rcases List.mem_cons.1 hn with h | h
        · exact absurd h.symm hun
        · exact h
      have ih' := ih hn'
      by_cases hdu : done.contains u = true
      · have h1 : (n :: done).contains u = true := by
          simp only [List.contains_cons, Bool.or_eq_true]; exact Or.inr hdu
        simp only [h1, hdu, Bool.not_true, Bool.false_eq_true, if_false]
        exact ih'
      · have hdu' : done.contains u = false := by simpa using hdu
        have h1 : (n :: done).contains u = false := by
          simp only [List.contains_cons, Bool.or_eq_false_iff]
          exact ⟨by simpa using hun, hdu'⟩
        simp only [h1, hdu', Bool.not_false, if_true, List.length_cons]
        omega

/-- the walk never runs out of fuel and only adds to the type map -/
theorem visit_ok (S : InSchema) (U : List String) (hU : ∀ n ∈ U, ∀ f ∈ S.fieldsOf n, f ∈ U) :
    ∀ (fuel : Nat) (n : String) (done : List String), n ∈ U → remaining U done < fuel →
      ∃ d, visit S fuel n done = some d ∧ (∀ x ∈ done, x ∈ d) ∧ n ∈ d := by
  intro fuel
  induction fuel with
  | zero => intro n done _ h; omega
  | succ fuel ih =>
    intro n done hn hr
    simp only [visit]
    by_cases hc : done.contains n = true
    · simp only [hc, if_true]; exact ⟨done, rfl, fun x hx => hx, List.contains_iff_mem.1 hc⟩
    · have hc' : done.contains n = false := by simpa using hc
      simp only [hc', Bool.false_eq_true, if_false]
      have hlt := remaining_cons_lt U done n hn hc'
      have hfold : ∀ (fs : List String), (∀ f ∈ fs, f ∈ U) → ∀ d, remaining U d < fuel →
          ∃ d', fs.foldlM (fun d f => visit S fuel f d) d = some d' ∧ ∀ x ∈ d, x ∈ d' := by
        intro fs
        induction fs with
        | nil => intro _ d _; exact ⟨d, rfl, fun x hx => hx⟩
        | cons f fs ihf =>
          intro hfs d hd
          obtain ⟨d1, h1, hsub1, _⟩ := ih f d (hfs f List.mem_cons_self) hd
          have hd1 : remaining U d1 < fuel := Nat.lt_of_le_of_lt (remaining_mono U d d1 hsub1) hd
          obtain ⟨d2, h2, hsub2⟩ := ihf (fun g hg => hfs g (List.mem_cons_of_mem _ hg)) d1 hd1
          refine ⟨d2, ?_, fun x hx => hsub2 x (hsub1 x hx)⟩
          simp only [List.foldlM_cons, h1]
          exact h2
      obtain ⟨d', hd', hsub⟩ := hfold (S.fieldsOf n) (hU n hn) (n :: done) (by omega)
      exact ⟨d', hd', fun x hx => hsub x (List.mem_cons_of_mem _ hx), hsub n List.mem_cons_self⟩

end Genq.InputClosure
