/-
C16 — enum constants are a bijection with the schema's enum values.
-/
import Genq.Model.Names
import Genq.Model.ConvSkel
import Genq.Extracted.Conv
namespace Genq.Names

section Lemmas

theorem find_none_iff_not_mem (seen : List EnumConst) (n : Name) :
    seen.find? (fun c => c.goName == n) = none ↔ n ∉ seen.map (·.goName) := by
  induction seen with
  | nil => simp
  | cons c cs ih =>
    simp only [List.find?_cons, List.map_cons, List.mem_cons, not_or]
    by_cases h : c.goName = n
    · simp [h]
    · have h' : (c.goName == n) = false := by simpa using h
      simp only [h', ih]
      constructor
      · intro hm; exact ⟨fun e => h e.symm, hm⟩
      · intro hm; exact hm.2

/-- generalised loop invariant -/
theorem aux_ok (nameOf : Name → Name) (vs : List Name) (seen : List EnumConst) (cs : List EnumConst)
    (h : convertEnumAux nameOf vs seen = .ok cs) :
    cs = seen.reverse ++ vs.map (fun v => ⟨nameOf v, v⟩) ∧
    (∀ v ∈ vs, nameOf v ∉ seen.map (·.goName)) ∧ (vs.map nameOf).Nodup := by
  induction vs generalizing seen with
  | nil =>
    simp only [convertEnumAux] at h
    cases h
    simp
  | cons v vs ih =>
    simp only [convertEnumAux] at h
    split at h
    · cases h
    · rename_i hf
      have hnm := (find_none_iff_not_mem seen (nameOf v)).1 hf
      have := ih (⟨nameOf v, v⟩ :: seen) h
      obtain ⟨h1, h2, h3⟩ := this
      refine ⟨?_, ?_, ?_⟩
      · simp [h1]
      · intro w hw
        rcases List.mem_cons.1 hw with rfl | hw
        · exact hnm
        · have := h2 w hw
          simp only [List.map_cons, List.mem_cons, not_or] at this
          exact this.2
      · simp only [List.map_cons, List.nodup_cons]
        refine ⟨?_, h3⟩
        intro hmem
        obtain ⟨w, hw, hwe⟩ := List.mem_map.1 hmem
        have := h2 w hw
        simp only [List.map_cons, List.mem_cons, not_or] at this
        exact this.1 hwe

theorem aux_conflict (nameOf : Name → Name) (vs : List Name) (seen : List EnumConst) (a b n : Name)
    (h : convertEnumAux nameOf vs seen = .conflict a b n) :
    n = nameOf a ∧ a ∈ vs ∧
      (n ∈ seen.map (·.goName) ∨ ¬ (vs.map nameOf).Nodup) := by
  induction vs generalizing seen with
  | nil => simp [convertEnumAux] at h
  | cons v vs ih =>
    simp only [convertEnumAux] at h
    split at h
    · rename_i c hc
      cases h
      refine ⟨rfl, by simp, Or.inl ?_⟩
      have := List.find?_some hc
      have hm := List.mem_of_find?_eq_some hc
      simp only [beq_iff_eq] at this
      exact List.mem_map.2 ⟨c, hm, this⟩
    · obtain ⟨h1, h2, h3⟩ := ih _ h
      refine ⟨h1, List.mem_cons_of_mem _ h2, ?_⟩
      rcases h3 with h3 | h3
      · simp only [List.map_cons, List.mem_cons] at h3
        rcases h3 with h3 | h3
        · right
          simp only [List.map_cons, List.nodup_cons]
          rintro ⟨hx, _⟩
          apply hx
          rw [← h3, h1]
          exact List.mem_map.2 ⟨a, h2, rfl⟩
        · exact Or.inl h3
      · right
        simp only [List.map_cons, List.nodup_cons]
        rintro ⟨_, hx⟩
        exact h3 hx

theorem nodup_map_of_injective {α β} (f : α → β) (hf : Function.Injective f) (l : List α)
    (h : l.Nodup) : (l.map f).Nodup := by
  induction l with
  | nil => simp
  | cons a l ih =>
    simp only [List.map_cons, List.nodup_cons] at *
    refine ⟨?_, ih h.2⟩
    intro hm
    obtain ⟨b, hb, hbe⟩ := List.mem_map.1 hm
    have := hf hbe
    subst this
    exact h.1 hb

theorem raw_injective (t : Name) : Function.Injective (enumValueName .raw t) := by
  intro a b h
  simp only [enumValueName] at h
  have := List.append_cancel_left h
  simpa using this

theorem auxG_ok (nameOf : Name → Name) (taken : List Name) (k : Nat) (vs : List Name) (seen cs : List EnumConst)
    (h : convertEnumAuxG nameOf taken k vs seen = .ok cs) :
    cs = seen.reverse ++ vs.map (fun v => ⟨nameOf v, v⟩) ∧
    (∀ v ∈ vs, nameOf v ∉ seen.map (·.goName) ∧ nameOf v ∉ taken) ∧ (vs.map nameOf).Nodup := by
  induction vs generalizing seen with
  | nil =>
    simp only [convertEnumAuxG] at h
    cases h
    simp
  | cons v vs ih =>
    simp only [convertEnumAuxG] at h
    split at h
    · cases h
    · rename_i hf
      have hnm := (find_none_iff_not_mem seen (nameOf v)).1 hf
      split at h
      · cases h
      · rename_i htk
        have hnt : nameOf v ∉ taken := by simpa using htk
        obtain ⟨h1, h2, h3⟩ := ih (⟨nameOf v, v⟩ :: seen) h
        refine ⟨?_, ?_, ?_⟩
        · simp [h1]
        · intro w hw
          rcases List.mem_cons.1 hw with rfl | hw
          · exact ⟨hnm, hnt⟩
          · have := h2 w hw
            simp only [List.map_cons, List.mem_cons, not_or] at this
            exact ⟨this.1.2, this.2⟩
        · simp only [List.map_cons, List.nodup_cons]
          refine ⟨?_, h3⟩
          intro hmem
          obtain ⟨w, hw, hwe⟩ := List.mem_map.1 hmem
          have := (h2 w hw).1
          simp only [List.map_cons, List.mem_cons, not_or] at this
          exact this.1 hwe

theorem auxG_err_not_ok (nameOf : Name → Name) (taken : List Name) (k : Nat) (vs : List Name) (seen : List EnumConst)
    (e : EnumsRes) (h : convertEnumAuxG nameOf taken k vs seen = .error e) : ∀ r, e ≠ .ok r := by
  induction vs generalizing seen with
  | nil => simp [convertEnumAuxG] at h
  | cons v vs ih =>
    simp only [convertEnumAuxG] at h
    split at h
    · cases h; intro r hr; cases hr
    · split at h
      · cases h; intro r hr; cases hr
      · exact ih _ h

theorem nodup_append_of {α : Type} (a b : List α) (ha : a.Nodup) (hb : b.Nodup) (hd : ∀ x ∈ b, x ∉ a) : (a ++ b).Nodup := by
  induction a with
  | nil => simpa using hb
  | cons x xs ih =>
    simp only [List.nodup_cons] at ha
    simp only [List.cons_append, List.nodup_cons, List.mem_append, not_or]
    refine ⟨⟨ha.1, fun hx => hd x hx (List.mem_cons_self ..)⟩, ih ha.2 (fun y hy hyx => hd y hy (List.mem_cons_of_mem _ hyx))⟩

/-- invariant of the loop over enums: `taken` lists the constants emitted so far, without repeats -/
theorem enumsAux_ok (cfg : CasingCfg) : ∀ (ds : List EnumDecl) (k : Nat) (taken : List Name) (acc res : List (List EnumConst)),
    convertEnumsAux cfg ds k taken acc = .ok res →
    taken.Nodup → taken = acc.reverse.flatMap (fun cs => cs.map (·.goName)) →
    (res.flatMap (fun cs => cs.map (·.goName))).Nodup ∧
    ∃ rest, res = acc.reverse ++ rest ∧ rest.map (fun cs => cs.map (·.gqlName)) = ds.map (·.values)
  | [], _, taken, acc, res, h, hn, ht => by
    simp only [convertEnumsAux, EnumsRes.ok.injEq] at h
    subst h
    exact ⟨ht ▸ hn, [], by simp, rfl⟩
  | d :: ds, k, taken, acc, res, h, hn, ht => by
    simp only [convertEnumsAux] at h
    split at h
    · next e he => exact absurd h (auxG_err_not_ok _ _ _ _ _ _ he res)
    · next cs hcs =>
      obtain ⟨h1, h2, h3⟩ := auxG_ok _ _ _ _ _ _ hcs
      simp only [List.reverse_nil, List.nil_append] at h1
      have hnames : cs.map (·.goName) = d.values.map (enumValueName (cfg.forEnum d.gqlTypeName) d.goTypeName) := by
        rw [h1]; simp [Function.comp_def]
      have hgql : cs.map (·.gqlName) = d.values := by
        rw [h1]; simp [Function.comp_def]
      have hnew : (taken ++ cs.map (·.goName)).Nodup := by
        apply nodup_append_of _ _ hn (hnames ▸ h3)
        intro x hx
        rw [hnames] at hx
        obtain ⟨v, hv, rfl⟩ := List.mem_map.1 hx
        exact (h2 v hv).2
      have := enumsAux_ok cfg ds (k + 1) _ (cs :: acc) res h hnew (by
        rw [ht]; simp)
      obtain ⟨hnd, rest, hres, hrest⟩ := this
      refine ⟨hnd, cs :: rest, ?_, ?_⟩
      · rw [hres]; simp
      · simp [hgql, hrest]

end Lemmas

/-- **C16_bijection** — on success there is exactly one constant per schema value, in schema
    order, whose string is the GraphQL value name, and the Go identifiers are pairwise distinct
    (so `All<Enum>`, which lists the same constants, lists each once). -/
theorem C16_bijection (cfg : CasingCfg) (t g : Name) (values : List Name) (cs : List EnumConst)
    (h : convertEnum cfg t g values = .ok cs) :
    cs.map (·.gqlName) = values ∧
    cs.map (·.goName) = values.map (enumValueName (cfg.forEnum g) t) ∧
    (cs.map (·.goName)).Nodup := by
  unfold convertEnum at h
  obtain ⟨h1, _, h3⟩ := aux_ok _ _ _ _ h
  subst h1
  simp only [List.reverse_nil, List.nil_append, List.map_map]
  refine ⟨?_, ?_, ?_⟩
  · simp [Function.comp_def]
  · simp [Function.comp_def]
  · simpa [Function.comp_def] using h3

/-- **C16_conflict_iff_error** — generation of the enum fails exactly when two values would
    receive the same Go identifier: no duplicate is emitted and no value is dropped. -/
theorem C16_conflict_iff_error (cfg : CasingCfg) (t g : Name) (values : List Name) :
    (∃ a b n, convertEnum cfg t g values = .conflict a b n) ↔
      ¬ (values.map (enumValueName (cfg.forEnum g) t)).Nodup := by
  constructor
  · rintro ⟨a, b, n, h⟩
    unfold convertEnum at h
    obtain ⟨_, _, h3⟩ := aux_conflict _ _ _ _ _ _ h
    simpa using h3
  · intro hn
    cases hr : convertEnum cfg t g values with
    | ok cs =>
      exfalso
      obtain ⟨_, h2, h3⟩ := C16_bijection cfg t g values cs hr
      rw [h2] at h3
      exact hn h3
    | conflict a b n => exact ⟨a, b, n, rfl⟩

/-- **C16_raw_injective** — under `raw` casing distinct schema values never conflict. -/
theorem C16_raw_injective (cfg : CasingCfg) (t g : Name) (values : List Name)
    (hraw : cfg.forEnum g = .raw) (hd : values.Nodup) :
    ∃ cs, convertEnum cfg t g values = .ok cs := by
  cases hr : convertEnum cfg t g values with
  | ok cs => exact ⟨cs, rfl⟩
  | conflict a b n =>
    exfalso
    have := (C16_conflict_iff_error cfg t g values).1 ⟨a, b, n, hr⟩
    rw [hraw] at this
    exact this (nodup_map_of_injective _ (raw_injective t) _ hd)

/-- The conflict that is reported names two distinct positions of the schema's value list with
    the same identifier (the error is not spurious). -/
theorem C16_conflict_is_real (cfg : CasingCfg) (t g : Name) (values : List Name) (a b n : Name)
    (h : convertEnum cfg t g values = .conflict a b n) :
    a ∈ values ∧ n = enumValueName (cfg.forEnum g) t a := by
  unfold convertEnum at h
  obtain ⟨h1, h2, _⟩ := aux_conflict _ _ _ _ _ _ h
  exact ⟨h2, h1⟩

/-- **C16_global_unique** — over a whole generation (the enums in the order they are converted,
    with the generator-wide table of constant names): when generation succeeds, every enum has
    exactly its schema values in order, and ALL constants of ALL enums have pairwise distinct Go
    identifiers — no duplicate is ever emitted, also not across enums (the repaired F-16:
    `enum A {B_C}` and `enum AB {C}` both yielding `ABC`). -/
theorem C16_global_unique (cfg : CasingCfg) (ds : List EnumDecl) (res : List (List EnumConst))
    (h : convertEnums cfg ds = .ok res) :
    (res.flatMap (fun cs => cs.map (·.goName))).Nodup ∧
    res.map (fun cs => cs.map (·.gqlName)) = ds.map (·.values) := by
  obtain ⟨h1, rest, h2, h3⟩ := enumsAux_ok cfg ds 0 [] [] res h List.nodup_nil rfl
  simp only [List.reverse_nil, List.nil_append] at h2
  subst h2
  exact ⟨h1, h3⟩

/-- the cross-enum clash is reported (as an error naming the value), not emitted -/
theorem C16_cross_enum_collision_reported :
    convertEnums ⟨none, none, []⟩ [⟨['A'], ['A'], [['B', '_', 'C']]⟩, ⟨['A', 'B'], ['A', 'B'], [['C']]⟩]
      = .crossConflict 1 ['C'] ['A', 'B', 'C'] := by decide

/-- The per-enum function alone does not see other enums: its unrestricted uniqueness claim… -/
def C16_global_unique_full : Prop :=
  ∀ (cfg : CasingCfg) (e1 e2 : Name) (v1 v2 : List Name) (c1 c2 : List EnumConst),
    e1 ≠ e2 →
    convertEnum cfg (enumGoTypeName cfg e1) e1 v1 = .ok c1 →
    convertEnum cfg (enumGoTypeName cfg e2) e2 v2 = .ok c2 →
    ∀ x ∈ c1, ∀ y ∈ c2, x.goName ≠ y.goName

/-- …is false: `enum A {B_C}` and `enum AB {C}` both yield `ABC` (F-16 as it was on the pinned
    commit; the generator-wide table above is what repairs it). -/
theorem C16_cross_enum_collision : ¬ C16_global_unique_full := by
  intro h
  have := h ⟨none, none, []⟩ ['A'] ['A', 'B'] [['B', '_', 'C']] [['C']]
    [⟨['A', 'B', 'C'], ['B', '_', 'C']⟩] [⟨['A', 'B', 'C'], ['C']⟩]
    (by decide) (by decide) (by decide) _ (List.mem_singleton.2 rfl) _ (List.mem_singleton.2 rfl)
  exact this rfl

-- non-vacuity
example : convertEnum ⟨none, none, []⟩ "Role".toList "Role".toList ["ADMIN".toList, "super_user".toList] =
    .ok [⟨"RoleAdmin".toList, "ADMIN".toList⟩, ⟨"RoleSuperUser".toList, "super_user".toList⟩] := by decide
example : convertEnum ⟨none, none, []⟩ "R".toList "R".toList ["a_b".toList, "A_B".toList] =
    .conflict "A_B".toList "a_b".toList "RAB".toList := by decide

end Genq.Names

namespace Genq

/-- **C16_enum_naming_tie** — Casing.enumValueName (with the naming functions it shares a file with), as in /repo now (regenerated on every run), equal to the copy the model was written from -/
theorem C16_enum_naming_tie : Extracted.namingSkeleton = ConvSkel.namingSkeleton := rfl

/-- **C16_casing_tie** — Casing.validate / Casing.forEnum, as in /repo now (regenerated on every run), equal to the copy the model was written from -/
theorem C16_casing_tie : Extracted.casingSkeleton = ConvSkel.casingSkeleton := rfl

end Genq
