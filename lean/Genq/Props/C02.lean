/-
C02 — generated response types decode every spec-conformant response faithfully.
Proved here: the struct generated for a concrete object type carries exactly the response keys
the GraphQL specification's CollectFields yields for that runtime type — fragment type
conditions, untyped fragments and nesting to any depth included — because genqlient's
fragmentMatches coincides with DoesFragmentTypeApply on object types.  That encoding/json then
puts each value into the field tagged with its key, and the dispatch on __typename (C19), are
checked on the compiled code against an independent reference executor.
-/
import Genq.Model.Collect
import Genq.Model.CollectSpread
import Genq.Model.Codec
import Genq.Model.CodecSkel
import Genq.Extracted.Codec
import Genq.Proofs.CodecFaithful
import Genq.Model.ConvSkel
import Genq.Extracted.Conv
namespace Genq.Collect

/-- **C02_fragmentMatches_is_DoesFragmentTypeApply** — on a well-formed schema, for an object
    type, genqlient's matching rule is the specification's -/
theorem C02_fragmentMatches_is_DoesFragmentTypeApply (lookup : String → Option TypeDef) (obj td : TypeDef) (c : String)
    (wf : WF lookup obj) (h : lookup c = some td) : fragmentMatches obj td = applies obj td := by
  have hn := wf.named c td h
  unfold fragmentMatches applies
  cases hk : td.kind with
  | object =>
    have hni : td.name ∉ obj.interfaces := by
      rw [hn]; exact wf.notIface c td h (by rw [hk]; decide)
    have : obj.interfaces.contains td.name = false := by
      simpa using hni
    have hd : (Kind.object == Kind.union) = false := by decide
    rw [hk] at *
    simp only [this, Bool.or_false, hd, Bool.false_and]
    by_cases he : td.name = obj.name
    · simp [he]
    · have h1 : (td.name == obj.name) = false := by simpa using he
      have h2 : (obj.name == td.name) = false := by simpa using (fun e => he e.symm)
      rw [h1, h2]
  | interface =>
    have hne : (obj.name == td.name) = false := by
      simp only [beq_eq_false_iff_ne, ne_eq]
      intro he
      have : lookup obj.name = some td := by rw [he, hn]; exact h
      have := wf.self td this
      rw [this, wf.objKind] at hk
      cases hk
    simp [hne]
  | union =>
    have hne : (obj.name == td.name) = false := by
      simp only [beq_eq_false_iff_ne, ne_eq]
      intro he
      have : lookup obj.name = some td := by rw [he, hn]; exact h
      have := wf.self td this
      rw [this, wf.objKind] at hk
      cases hk
    have hni : td.name ∉ obj.interfaces := by
      rw [hn]; exact wf.notIface c td h (by rw [hk]; decide)
    have : obj.interfaces.contains td.name = false := by simpa using hni
    simp only [hne, this, Bool.false_or, Bool.or_false]
    simp

mutual
theorem keys_eq (lookup : String → Option TypeDef) (obj : TypeDef) (wf : WF lookup obj) :
    ∀ s : S, genqKeys lookup obj s = specKeys lookup obj s
  | .field k => by simp [genqKeys, specKeys]
  | .inline none sub => by simp [genqKeys, specKeys, keys_eq_list lookup obj wf sub]
  | .inline (some c) sub => by
    simp only [genqKeys, specKeys]
    cases h : lookup c with
    | none => rfl
    | some td =>
      simp only [C02_fragmentMatches_is_DoesFragmentTypeApply lookup obj td c wf h, keys_eq_list lookup obj wf sub]
theorem keys_eq_list (lookup : String → Option TypeDef) (obj : TypeDef) (wf : WF lookup obj) :
    ∀ l : List S, genqKeysList lookup obj l = specKeysList lookup obj l
  | [] => by simp [genqKeysList, specKeysList]
  | s :: ss => by simp [genqKeysList, specKeysList, keys_eq lookup obj wf s, keys_eq_list lookup obj wf ss]
end

/-- **C02_struct_fields_are_collectFields** — for every selection set (inline fragments nested to
    any depth, with and without type conditions) and every object type of a well-formed schema,
    the response keys of the generated struct are exactly those CollectFields produces for that
    runtime type, in the same order: nothing a conformant response can contain for that type is
    without a field, and no field waits for a key that cannot come. -/
theorem C02_struct_fields_are_collectFields (lookup : String → Option TypeDef) (obj : TypeDef) (wf : WF lookup obj)
    (sel : List S) : genqKeysList lookup obj sel = specKeysList lookup obj sel :=
  keys_eq_list lookup obj wf sel

/-- **C02_struct_fields_are_collectFields_with_spreads** — the same with named fragment spreads, to any nesting of
    fragments in fragments: the response keys carried by the struct generated for an object type together with
    every fragment struct embedded in it (at any depth) are exactly the keys CollectFields produces for that
    runtime type — for every fuel (nesting bound), so for every program. -/
theorem C02_struct_fields_are_collectFields_with_spreads (lookup : String → Option TypeDef) (frags : Frags)
    (obj : TypeDef) (wf : WF lookup obj) :
    ∀ (fuel : Nat) (s : S2), genqKeys2 lookup frags obj fuel s = specKeys2 lookup frags obj fuel s := by
  intro fuel
  induction fuel with
  | zero => intro s; rfl
  | succ fuel ih =>
    intro s
    have hl : ∀ l : List S2, l.flatMap (genqKeys2 lookup frags obj fuel) = l.flatMap (specKeys2 lookup frags obj fuel) := by
      intro l
      induction l with
      | nil => rfl
      | cons x xs ihl => simp only [List.flatMap_cons, ih x, ihl]
    cases s with
    | field k => rfl
    | inline c sub =>
      cases c with
      | none => simp only [genqKeys2, specKeys2, hl]
      | some c =>
        simp only [genqKeys2, specKeys2]
        cases h : lookup c with
        | none => rfl
        | some td =>
          simp only [C02_fragmentMatches_is_DoesFragmentTypeApply lookup obj td c wf h, hl]
    | spread n =>
      simp only [genqKeys2, specKeys2]
      cases hf : frags n with
      | none => rfl
      | some p =>
        obtain ⟨c, sel⟩ := p
        simp only
        cases h : lookup c with
        | none => rfl
        | some td =>
          simp only [C02_fragmentMatches_is_DoesFragmentTypeApply lookup obj td c wf h, hl]

/-- the defect a nested fragment matched against the ENCLOSING FRAGMENT's type (instead of the
    type the struct is generated for) causes: `... on Content { ... on Video { duration } }` in a
    struct for Video loses `duration` — witness that the `containing` argument matters -/
theorem C02_nested_condition_witness :
    let video : TypeDef := ⟨"Video", .object, ["Content"], []⟩
    let content : TypeDef := ⟨"Content", .interface, [], []⟩
    let lookup : String → Option TypeDef := fun n => if n = "Video" then some video else if n = "Content" then some content else none
    specKeysList lookup video [.field "id", .inline (some "Content") [.field "name", .inline (some "Video") [.field "duration"]]]
      = ["id", "name", "duration"] ∧
    fragmentMatches content video = false := by decide

end Genq.Collect

/-! ### faithfulness of the generated decoder, on its model (Model/Codec.lean) -/
namespace Genq.Codec
open Genq.Types (J)

/-- **C02_every_carrier_decodes_its_key** — decode one JSON object `o` into a struct with any nesting of embedded
    fragment structs.  Then every carrier of a response key — the struct's own field and the field of every
    embedded fragment (at any depth) that selects the key — holds exactly `fieldDec t (lookup o key)`: the
    decoding, by that field's own type, of the value the object has for that key (`e` ranges over all fields of the
    closure with what MarshalJSON would write for them, so the statement is about the stored values).  Nothing is
    dropped, nothing is taken from another key — up to encoding/json's case-insensitive `lookup`, which is where
    known finding F-02t lives (`C02_fold_twin_witness`). -/
theorem C02_every_carrier_decodes_its_key (fs : Flds) (o : List (String × J)) (vs : List Val) (d : Nat)
    (h : decFields fs o = .ok vs) :
    ∀ e ∈ encAll fs vs d, ∃ t v, (e.2.1, t) ∈ closureFields fs ∧ fieldDec t (lookup o e.2.1) = .ok v ∧ e.2.2 = fieldEnc t v :=
  faithfulFields fs o vs d h

/-- with exact keys only (no key of the object differs from `n` merely in letter case) `lookup` is the last
    value given for `n`: the case the property's naming rule speaks about -/
theorem C02_lookup_exact (o : List (String × J)) (n : String) (h : ∀ kv ∈ o, keyEq kv.1 n = true → kv.1 = n) :
    lookup o n = (o.filter (fun kv => kv.1 == n)).getLast?.map (·.2) := by
  induction o with
  | nil => rfl
  | cons kv rest ih =>
    obtain ⟨k, v⟩ := kv
    have ih' := ih (fun kv hkv => h kv (List.mem_cons_of_mem _ hkv))
    simp only [lookup, ih']
    by_cases hk : k = n
    · subst hk
      simp only [List.filter_cons, beq_self_eq_true, if_true]
      cases hr : rest.filter (fun kv => kv.1 == k) with
      | nil => simp [keyEq]
      | cons x xs =>
        have : ((k, v) :: x :: xs).getLast? = (x :: xs).getLast? := List.getLast?_cons_cons
        rw [this]
        cases hl : (x :: xs).getLast? with
        | none => simp at hl
        | some y => simp
    · have hke : keyEq k n = false := by
        cases hke : keyEq k n with
        | false => rfl
        | true => exact absurd (h (k, v) List.mem_cons_self hke) hk
      have hb : (k == n) = false := by simpa using hk
      simp only [List.filter_cons, hb, Bool.false_eq_true, if_false, hke]
      cases (rest.filter (fun kv => kv.1 == n)).getLast? <;> simp

/-- **C02_fold_twin_witness** (known finding F-02t; the same history is replayed on the compiled code by
    corpus/C02/f02t-…): `user { ...A userID }` with `fragment A on User { userId }` and the response
    `{"userId":"a","userID":"b"}` — the fragment's UserId ends up with "b". -/
theorem C02_fold_twin_witness :
    dec (.struct (.cons "A" true (.struct (.cons "userId" false (.leaf .str) .nil)) (.cons "userID" false (.leaf .str) .nil)))
      (.obj [("userId", .str "a"), ("userID", .str "b")]) = .ok (.struct [.struct [.leaf (.str "b")], .leaf (.str "b")]) := rfl

-- non-vacuity: a struct with an embedded fragment sharing `id` decodes, and both carriers hold "u1"
example : decFields (.cons "id" false (.leaf .str) (.cons "F" true (.struct (.cons "id" false (.leaf .str) .nil)) .nil))
    [("id", .str "u1")] = .ok [.leaf (.str "u1"), .struct [.leaf (.str "u1")]] := rfl

end Genq.Codec

namespace Genq
/-- **C02_codec_template_tie** — the templates (and FlattenedFields) extracted from /repo on this run are the ones
    the Codec model was written from: an edit of the generated (un)marshaling code breaks this equality even when no
    sampled response behaves differently. -/
theorem C02_codec_template_tie :
    Extracted.unmarshalTmpl = CodecSkel.unmarshalTmpl ∧
    Extracted.unmarshalHelperTmpl = CodecSkel.unmarshalHelperTmpl ∧
    Extracted.flattenedFieldsSkeleton = CodecSkel.flattenedFieldsSkeleton := ⟨rfl, rfl, rfl⟩
end Genq

namespace Genq

/-- **C02_fragment_matches_tie** — fragmentMatches / possibleObjectTypes, as in /repo now (regenerated on every run), equal to the copy the model was written from -/
theorem C02_fragment_matches_tie : Extracted.convertTypeSkeleton = ConvSkel.convertTypeSkeleton := rfl

end Genq
