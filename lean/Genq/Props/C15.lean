/-
C15 — the subscription client obeys the wire protocol and frees its resources under I/O faults.
-/
import Genq.Model.Ws
import Genq.Proofs.WsInv
import Genq.Proofs.WsFrames
namespace Genq.Ws

section Lemmas
@[simp] theorem setCall_get (w : World) (c : Nat) (k : Call) (h : c < w.calls.length) :
    (setCall w c k).calls[c]? = some k := by
  simp [setCall, List.getElem?_set, h]
@[simp] theorem setCall_isClosing (w : World) (c : Nat) (k : Call) : (setCall w c k).isClosing = w.isClosing := rfl
@[simp] theorem setCall_connCloses (w : World) (c : Nat) (k : Call) : (setCall w c k).connCloses = w.connCloses := rfl
@[simp] theorem setCall_errChanCloses (w : World) (c : Nat) (k : Call) : (setCall w c k).errChanCloses = w.errChanCloses := rfl
@[simp] theorem setCall_calls_length (w : World) (c : Nat) (k : Call) : (setCall w c k).calls.length = w.calls.length := by
  simp [setCall]
theorem endSub_calls (w : World) (i : SubId) (v : Bool) : (endSub Flags.fixed w i v).calls = w.calls := by
  unfold endSub
  cases getSub w i with
  | none => rfl
  | some s => simp only [Flags.fixed, if_true]; by_cases he : s.ended = true <;> simp [he, setSub]
theorem endSub_counters (w : World) (i : SubId) (v : Bool) :
    (endSub Flags.fixed w i v).isClosing = w.isClosing ∧ (endSub Flags.fixed w i v).connCloses = w.connCloses ∧
    (endSub Flags.fixed w i v).errChanCloses = w.errChanCloses := by
  unfold endSub
  cases getSub w i with
  | none => exact ⟨rfl, rfl, rfl⟩
  | some s => simp only [Flags.fixed, if_true]; by_cases he : s.ended = true <;> simp [he, setSub]
theorem closeFinal_effect (w : World) :
    (closeFinal w).isClosing = true ∧ (closeFinal w).connCloses = w.connCloses + 1 ∧
    (closeFinal w).errChanCloses = w.errChanCloses + 1 ∧ (closeFinal w).calls = w.calls := by
  unfold closeFinal; split <;> simp
theorem setCall_get' (w0 w1 : World) (c : Nat) (k : Call) (h : c < w0.calls.length) (heq : w1.calls = w0.calls) :
    (setCall w1 c k).calls[c]? = some k := by
  simp [setCall, heq, h]
theorem closeAfterUnsub_isClose (rest : List SubId) (acc : CloseAcc) (fd ok : Bool) :
    (closeAfterUnsub Flags.fixed rest acc fd ok).isClose = true := by
  unfold closeAfterUnsub
  cases ok <;> simp [Flags.fixed, Call.isClose]
end Lemmas

/-- **C15_close_always_cleans** — under the repaired flags a Close call can only return through
    its final section: every step of a Close call either stays inside Close (whatever write
    failed) or is the final section, which sets isClosing, closes the error channel and closes
    the connection, and only then returns. -/
theorem C15_close_always_cleans (w w' : World) (c : Nat) (b : Bool) (k : Call)
    (hc : w.calls[c]? = some k) (hk : k.isClose = true)
    (hs : stepCall Flags.fixed w c b = some w') :
    (∃ k', w'.calls[c]? = some k' ∧ k'.isClose = true ∧ w'.connCloses = w.connCloses ∧ w'.errChanCloses = w.errChanCloses) ∨
    (∃ acc ok, k = .closeFinal acc ∧ w'.calls[c]? = some (.ret ok) ∧ w'.isClosing = true ∧
       w'.connCloses = w.connCloses + 1 ∧ w'.errChanCloses = w.errChanCloses + 1) := by
  have hcl : c < w.calls.length := (List.getElem?_eq_some_iff.1 hc).1
  unfold stepCall at hs
  rw [hc] at hs
  cases k <;> simp only [Call.isClose] at hk <;> try contradiction
  all_goals simp only [Flags.fixed, if_true] at hs
  all_goals repeat' split at hs
  all_goals (try cases hs)
  all_goals first
    | exact Or.inl ⟨_, setCall_get' w _ c _ hcl rfl, rfl, rfl, rfl⟩
    | exact Or.inl ⟨_, setCall_get' w _ c _ hcl rfl, closeAfterUnsub_isClose _ _ _ _, rfl, rfl⟩
    | exact Or.inl ⟨_, setCall_get' w _ c _ hcl (endSub_calls _ _ _), closeAfterUnsub_isClose _ _ _ _,
        (endSub_counters _ _ _).2.1, (endSub_counters _ _ _).2.2⟩
    | exact Or.inl ⟨_, setCall_get' w _ c _ hcl rfl, by simp [closeAfterUnsub, Call.isClose], rfl, rfl⟩
    | exact Or.inl ⟨_, setCall_get' w _ c _ hcl (endSub_calls _ _ _), by simp [closeAfterUnsub, Call.isClose],
        (endSub_counters _ _ _).2.1, (endSub_counters _ _ _).2.2⟩
    | exact Or.inr ⟨_, _, rfl, setCall_get' w _ c _ hcl (closeFinal_effect w).2.2.2, (closeFinal_effect w).1,
        (closeFinal_effect w).2.1, (closeFinal_effect w).2.2.1⟩

/-- **C15_subscribe_failure_cleanup** — a Subscribe whose write fails removes its registration
    and reports the failure. -/
theorem C15_subscribe_failure_cleanup (w w' : World) (c : Nat) (i : SubId) (s : Sub)
    (hc : w.calls[c]? = some (.subWrite i)) (hs : getSub w i = some s)
    (hstep : step Flags.fixed w (.stepFail c) = some w') :
    (∃ s', getSub w' i = some s' ∧ s'.registered = false) ∧ w'.calls[c]? = some (.ret false) := by
  have hcl : c < w.calls.length := (List.getElem?_eq_some_iff.1 hc).1
  have hlt : i < w.subs.length := (List.getElem?_eq_some_iff.1 hs).1
  simp only [step, hc, stepCall, hs, Bool.false_eq_true, if_false, Option.some.injEq] at hstep
  subst hstep
  refine ⟨⟨{ s with registered := false }, ?_, rfl⟩, ?_⟩
  · simp [getSub, setCall, setSub, hlt]
  · simp [setCall, setSub, hcl]

/-- **C15_start_failure_cleanup** — whichever step of Start fails, the connection (if one was
    dialled) is closed and no reader is running; on success exactly connection_init was written. -/
theorem C15_start_failure_cleanup (dialOk initOk : Bool) (reads : List ReadRes) :
    let r := start dialOk initOk reads
    (r.ok = false → r.readerSpawned = false ∧ (r.dialed = true → r.connCloses = 1)) ∧
    (r.ok = true → r.readerSpawned = true ∧ r.connCloses = 0 ∧ r.framesWritten = [.init]) := by
  unfold start
  cases dialOk <;> cases initOk <;> cases waitAck reads <;> simp

/-- F-15a on the pinned commit: the close frame is written before the complete frames -/
theorem C15_pinned_close_frame_first_witness :
    (run Flags.pinned init [.subscribe, .step 0, .close, .step 1, .step 1, .step 1, .step 1]).written
      = [.init, .subscribe 0, .close, .complete 0] := by decide

/-- F-15b on the pinned commit: Close returns after a failed write with the connection and
    the error channel still open -/
theorem C15_pinned_close_leaves_open_witness :
    let w := run Flags.pinned init [.subscribe, .step 0, .close, .stepFail 1]
    w.calls[1]? = some (.ret false) ∧ w.connCloses = 0 ∧ w.errChanCloses = 0 := by decide

/-- on the repaired flags the same history ends with everything released, complete before close -/
theorem C15_fixed_close_under_fault :
    let w := run Flags.fixed init [.subscribe, .step 0, .close, .step 1, .step 1, .stepFail 1, .step 1, .step 1, .step 1]
    w.calls[1]? = some (.ret false) ∧ w.connCloses = 1 ∧ w.errChanCloses = 1 ∧ w.written = [.init, .subscribe 0, .close] := by
  decide

/-- **C15_conversation_shape** — for every event list (any interleaving, any write failures): the
    frames whose write succeeded begin with connection_init, and the subscribe frames handed to
    the connection carry the ids 0, 1, 2, … each exactly once, in order (no id is ever reused,
    also after a failed Subscribe). -/
theorem C15_conversation_shape (order : List SubId) (evs : List Ev) :
    let w := run Flags.fixed { init with closeOrder := order } evs
    (∃ l, w.written = .init :: l) ∧ subIds w.frames = List.range w.subs.length := by
  exact run_logInv { init with closeOrder := order } evs ⟨⟨[], rfl⟩, rfl⟩

/-- **C15_written_only_grows** — a frame once written stays written: along any continuation the
    log of successful writes is extended, never rewritten. -/
theorem C15_written_only_grows (w : World) (evs : List Ev) : w.written <+: (run Flags.fixed w evs).written :=
  run_written_prefix w evs

/-- The full protocol statement (every `complete` follows its `subscribe` and is sent once per
    id; nothing follows the close frame) holds only for SEQUENTIAL histories — with Unsubscribe
    racing Close the real client writes two completes — and is decided on every correspondence
    run by the harness's `wsValidConversation` on the frames really written. -/
def C15_valid_conversation_full : Prop :=
  ∀ (order : List SubId) (evs : List Ev),
    let w := run Flags.fixed { init with closeOrder := order } evs
    ∀ i, (w.written.filter (· == .complete i)).length ≤ 1

/-- … and it is FALSE for arbitrary interleavings: Unsubscribe(0) racing Close writes `complete 0`
    twice (an observation about the code, outside the property's sequential quantifier). -/
theorem C15_valid_conversation_full_refuted : ¬ C15_valid_conversation_full := by
  intro h
  have := h [] [.subscribe, .step 0, .unsubscribe 0, .close, .step 2, .step 2, .step 2, .step 1] 0
  revert this
  decide

end Genq.Ws
