/-
C04 — each helper call sends one request whose variables are valid and faithful.
Proved here: which keys the variables object has.  That the values equal the arguments, coerce to
the declared GraphQL types and that custom marshalers are applied at every list depth is decided
on the compiled helpers (recording client, gqlparser's variable coercion).
-/
import Genq.Model.CodecSkel
import Genq.Extracted.Codec
import Genq.Model.Vars
import Genq.Model.CodecIn
import Genq.Model.ClientSkel
import Genq.Extracted.Client
namespace Genq.Vars

/-- **C04_keys_subset** — the variables object has keys only for declared variables, each at most
    once (given distinct variable names, as GraphQL validation guarantees) -/
theorem C04_keys_subset (vs : List Var) (hn : (vs.map (·.name)).Nodup) :
    (∀ k ∈ keys vs, k ∈ vs.map (·.name)) ∧ (keys vs).Nodup := by
  constructor
  · intro k hk
    simp only [keys, List.mem_map, List.mem_filter] at hk ⊢
    obtain ⟨v, ⟨hv, _⟩, rfl⟩ := hk
    exact ⟨v, hv, rfl⟩
  · unfold keys
    induction vs with
    | nil => simp
    | cons v vs ih =>
      simp only [List.map_cons, List.nodup_cons] at hn
      simp only [List.filter]
      split
      · simp only [List.map_cons, List.nodup_cons]
        refine ⟨?_, ih hn.2⟩
        intro hm
        simp only [List.mem_map, List.mem_filter] at hm
        obtain ⟨w, ⟨hw, _⟩, he⟩ := hm
        exact hn.1 (List.mem_map.2 ⟨w, hw, he⟩)
      · exact ih hn.2

/-- **C04_omitted_iff** — a variable's key is omitted exactly when it is marked omitempty and its
    Go value is empty in the encoding/json sense; for fields with a custom marshaler (the
    documented exception) exactly when it is marked omitempty and is a nil pointer.  Nothing else
    is ever omitted. -/
theorem C04_omitted_iff (v : Var) :
    keyPresent v = false ↔
      v.omitempty = true ∧ (if v.special then v.shape = .nilPointer else isEmpty v.shape = true) := by
  unfold keyPresent
  cases hs : v.special <;> cases ho : v.omitempty <;> cases hsh : v.shape <;> simp [isEmpty]

/-- without omitempty every declared variable is sent, whatever its value -/
theorem C04_no_omitempty_all_sent (vs : List Var) (h : ∀ v ∈ vs, v.omitempty = false) :
    keys vs = vs.map (·.name) := by
  unfold keys
  congr 1
  apply List.filter_eq_self.2
  intro v hv
  simp [keyPresent, h v hv]

/-- **C04_one_request** — a helper call makes exactly one request carrying the operation's name,
    its emitted document and the input struct, unless no client could be obtained (then none) -/
theorem C04_one_request (getterFails : Bool) :
    (helperCall getterFails).requests = (if getterFails then 0 else 1) ∧
    (helperCall getterFails).opNameIsOperation = true ∧ (helperCall getterFails).queryIsEmittedDocument = true := by
  cases getterFails <;> decide

-- non-vacuity
example : keys [⟨"a", true, false, .zeroScalar⟩, ⟨"b", false, false, .nilPointer⟩, ⟨"c", true, true, .zeroScalar⟩, ⟨"d", true, true, .nilPointer⟩]
    = ["b", "c"] := by decide

end Genq.Vars

namespace Genq
/-- **C04_marshal_template_tie** — the marshal template (which also produces the MarshalJSON of input objects and of
    the hidden `__<Op>Input` struct: per-slice-depth loop, nil-pointer skip, omitempty copied to the premarshal
    struct), FlattenedFields and the decision which structs get generated (un)marshalers, as extracted from /repo
    on this run, are the ones the checks were written against. -/
theorem C04_marshal_template_tie :
    Extracted.marshalTmpl = CodecSkel.marshalTmpl ∧ Extracted.flattenedFieldsSkeleton = CodecSkel.flattenedFieldsSkeleton := ⟨rfl, rfl⟩
end Genq

/-! ### the values: the model of the generated marshaling of variables (Model/CodecIn.lean) -/
namespace Genq.Codec
open Genq.Types (J)

/-- **C04_field_omitted_iff_empty_model** — a variable or input-object field contributes its key to the object
    sent EXCEPT when it is tagged omitempty and its value is empty in the encoding/json sense (for a custom-marshaled
    field: judged on the premarshal struct); then it contributes nothing.  Nothing else is ever omitted. -/
theorem C04_field_omitted_iff_empty_model (tag : String) (emb : Bool) (t : Ty) (rest : Flds) (v : Val) (vs : List Val) :
    encInFields (.cons tag emb t rest) (v :: vs) =
      (if (splitTag tag).2 && (if special t then isEmptySpecial t v else isEmptyPlain t v) then []
       else [((splitTag tag).1, if special t then encInSpecial t v else encIn t v)]) ++ encInFields rest vs := by
  simp only [encInFields]
  by_cases hs : special t = true <;> simp [hs]

/-- a field NOT marked omitempty is always sent, whatever its value -/
theorem C04_unmarked_field_always_sent_model (tag : String) (emb : Bool) (t : Ty) (rest : Flds) (v : Val) (vs : List Val)
    (h : (splitTag tag).2 = false) :
    ∃ j, encInFields (.cons tag emb t rest) (v :: vs) = ((splitTag tag).1, j) :: encInFields rest vs := by
  rw [C04_field_omitted_iff_empty_model, h]
  simp

/-- nil pointers are sent as null; custom marshalers are applied to every element at every list depth; and the
    known finding F-04a is visible in the model: a nil list of custom-marshaled elements is sent as [] -/
theorem C04_encoding_cases_model (t : Ty) (vs : List Val) :
    encIn (.ptr t) .nilPtr = .null ∧
    encInSpecial (.slice (.slice t)) (.slice [.slice vs]) = .arr [.arr (vs.map (fun v => encInSpecial t v))] ∧
    encInSpecial (.slice t) .nilSlice = .arr [] := by
  refine ⟨rfl, ?_, rfl⟩
  simp [encInSpecial]

-- non-vacuity: `$tag: String` omitempty with "", `$n: Int!` with 0 (not omitempty), `$at: [Stamp!]` omitempty nil
example : encVars (.cons "tag,omitempty" false (.leaf .str) (.cons "n" false (.leaf .int)
      (.cons "at,omitempty" false (.slice (.leaf .custom)) .nil))) [.str "", .num "0", .null]
    = .ok (.obj [("n", .num "0")]) := rfl

end Genq.Codec

namespace Genq

/-- **C04_operation_template_tie** — the generated helper fills Request{OpName, Query, Variables} from the
    `__<Op>Input` struct exactly as the template in /repo says (regenerated on every run) -/
theorem C04_operation_template_tie : Extracted.operationTmpl = ClientSkel.operationTmpl := rfl

end Genq
