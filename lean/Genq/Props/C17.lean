/-
C17 — where and how operations are written does not change the generated code.
-/
import Genq.Model.Files
import Genq.Model.GenSkel
import Genq.Extracted.Gen
import Genq.Proofs.Lines
import Genq.Model.ConvSkel
import Genq.Extracted.Conv
namespace Genq.Files

/-- **C17_collect_perm** — enumerating the same files in another order gives the validator and
    the generator the same definitions (a permutation of the merged document). -/
theorem C17_collect_perm {D} (files files' : List (File D)) (h : files.Perm files') :
    (merged files).Perm (merged files') :=
  List.Perm.flatMap_right defsOfFile h

/-- **C17_split_graphql** — splitting a .graphql file into two files changes nothing in the
    merged document when the two halves are enumerated next to each other -/
theorem C17_split_graphql {D} (n1 n2 n : Str) (d1 d2 : List D) (rest : List (File D)) :
    merged (⟨n1, .graphql, d1, []⟩ :: ⟨n2, .graphql, d2, []⟩ :: rest) = merged (⟨n, .graphql, d1 ++ d2, []⟩ :: rest) := by
  simp [merged, defsOfFile, List.flatMap_cons, List.append_assoc]

/-- **C17_literal_equals_file** — a `# @genqlient` string literal in a Go file contributes
    exactly what a .graphql file with the same text contributes -/
theorem C17_literal_equals_file {D} (n g : Str) (value : Str) (ds : List D) (hsel : selected value = true)
    (rest : List (File D)) :
    merged (⟨g, .go, [], [⟨value, ds⟩]⟩ :: rest) = merged (⟨n, .graphql, ds, []⟩ :: rest) := by
  simp [merged, defsOfFile, List.flatMap_cons, hsel]

/-- literals that do not start with the marker contribute nothing (ordinary strings of the Go
    file are not mistaken for operations) -/
theorem C17_unselected_literal_ignored {D} (g : Str) (value : Str) (ds : List D) (hsel : selected value = false)
    (rest : List (File D)) :
    merged (⟨g, .go, [], [⟨value, ds⟩]⟩ :: rest) = merged rest := by
  simp [merged, defsOfFile, List.flatMap_cons, hsel]

/-- **C17_comment_scan_local** — the comment block (and so the @genqlient directive) found for a
    node depends only on the contiguous comment lines directly above it, not on what precedes
    them in whatever file or literal the node sits -/
theorem C17_comment_scan_local (block : List Str) (stop : Str) (above above' : List Str)
    (hb : ∀ l ∈ block, isCommentLine l = true) (hs : isCommentLine stop = false) :
    scanUp (block ++ stop :: above) = block ∧ scanUp (block ++ stop :: above') = block := by
  have key : ∀ (tail : List Str), scanUp (block ++ stop :: tail) = block := by
    intro tail
    induction block with
    | nil => simp [scanUp, hs]
    | cons l ls ih =>
      have hl := hb l (List.mem_cons_self)
      simp only [List.cons_append, scanUp, hl, if_true]
      rw [ih (fun x hx => hb x (List.mem_cons_of_mem _ hx))]
  exact ⟨key above, key above'⟩

/-- The full statement (generated declarations equal up to `sourceLocation` under every layout)
    additionally needs that conversion does not depend on the order of operations; that part is
    decided on every run by generating each program under 8 layouts and comparing bytes. -/
def C17_layout_invariant_full : Prop :=
  ∀ {D Out : Type} (gen : List D → Out) (files files' : List (File D)),
    (merged files).Perm (merged files') → gen (merged files) = gen (merged files')

-- non-vacuity
example : scanUp ["  # @genqlient(pointer: true)".toList, "# doc".toList, "query A {".toList, "# other".toList] =
    ["  # @genqlient(pointer: true)".toList, "# doc".toList] := by decide

end Genq.Files

namespace Genq
/-- **C17_expandFilenames_tie** — which files are read (glob expansion, de-duplication by full path, sorting) is the
    function the layout theorems assume: the skeleton of expandFilenames extracted from /repo on this run equals the
    committed one. -/
theorem C17_expandFilenames_tie : Extracted.expandFilenamesSkeleton = GenSkel.expandFilenamesSkeleton := rfl
end Genq

/-! ### which comment lines stand above a node does not depend on the file's line-ending convention -/
namespace Genq.Lines

/-- **C17_lines_are_the_lexers_lines** — the line slice the comment scan uses is, for every source text, exactly
    the lexer's division into lines: line k of the slice is the text of the lexer's line k -/
theorem C17_lines_are_the_lexers_lines (s : Str) : linesFixed s = lexLines s := linesFixed_eq_lexLines s

/-- **C17_line_ending_convention_irrelevant** — the same lines written with "\n", "\r\n" or bare "\r" line ends
    give the comment scan the same line slice (namely those lines), so the same comments and @genqlient
    directives are found above every node -/
theorem C17_line_ending_convention_irrelevant (e1 e2 : Ending) (ls : List Str) (hne : ls ≠ [])
    (hc : ∀ l ∈ ls, clean l) :
    linesFixed (joinLines e1 ls) = ls ∧ linesFixed (joinLines e1 ls) = linesFixed (joinLines e2 ls) := by
  rw [linesFixed_eq_lexLines, linesFixed_eq_lexLines, lexLines_joinLines e1 ls hne hc, lexLines_joinLines e2 ls hne hc]
  exact ⟨rfl, rfl⟩

/-- before fix fa11825 this failed for bare "\r" (witness): the directive line was not a line of its own -/
theorem C17_old_split_cr_witness :
    linesOld (joinLines .cr ["# @genqlient(pointer: true)".toList, "query Q { f }".toList]) ≠
      ["# @genqlient(pointer: true)".toList, "query Q { f }".toList] ∧
    linesFixed (joinLines .cr ["# @genqlient(pointer: true)".toList, "query Q { f }".toList]) =
      ["# @genqlient(pointer: true)".toList, "query Q { f }".toList] := by decide

/-- **C17_parsePrecedingComment_tie** -/
theorem C17_parsePrecedingComment_tie :
    Extracted.parsePrecedingCommentSkeleton = GenSkel.parsePrecedingCommentSkeleton := rfl

-- non-vacuity of C17_line_ending_convention_irrelevant
example : clean "query Q { f }".toList := by
  intro c hc
  simp at hc
  rcases hc with h | h | h | h | h | h | h | h | h | h | h | h | h <;> subst h <;> decide

end Genq.Lines

namespace Genq

/-- **C17_parse_tie** — getAndValidateQueries / getQueries / getQueriesFromString / getQueriesFromGo, as in /repo now (regenerated on every run), equal to the copy the model was written from -/
theorem C17_parse_tie : Extracted.parseSkeleton = ConvSkel.parseSkeleton := rfl

end Genq
