/-
C20 — a failed run leaves previously generated files untouched; a successful run writes
exactly the generator's bytes.
-/
import Genq.Model.Main
import Genq.Extracted.Main
namespace Genq.Main

section Lemmas

def writeAll (fs : FS) (g : List (Path × Bytes)) : FS := g.foldl (fun fs e => fsSet fs e.1 e.2) fs

def loopBody : List Stmt := [.call .mkdirAll, .ifErrReturn, .call .writeFile, .ifErrReturn]

theorem fsGet_fsSet_same (fs : FS) (p : Path) (b : Bytes) : fsGet (fsSet fs p b) p = some b := by
  simp [fsGet, fsSet, List.lookup]

theorem lookup_filter_ne (fs : FS) (p q : Path) (h : q ≠ p) :
    List.lookup q (fs.filter (fun e => e.1 != p)) = List.lookup q fs := by
  induction fs with
  | nil => rfl
  | cons e es ih =>
    obtain ⟨k, v⟩ := e
    by_cases hk : k = p
    · subst hk
      have : (q == k) = false := by simpa using h
      simp [List.filter, List.lookup, this, ih]
    · have hk' : (k != p) = true := by simpa using hk
      simp only [List.filter, hk', List.lookup]
      cases hq : (q == k) <;> simp [ih]

theorem fsGet_fsSet_other (fs : FS) (p q : Path) (b : Bytes) (h : q ≠ p) :
    fsGet (fsSet fs p b) q = fsGet fs q := by
  have : (q == p) = false := by simpa using h
  simp [fsGet, fsSet, List.lookup, this, lookup_filter_ne fs p q h]

theorem writeAll_other (g : List (Path × Bytes)) (fs : FS) (q : Path) (h : q ∉ g.map (·.1)) :
    fsGet (writeAll fs g) q = fsGet fs q := by
  induction g generalizing fs with
  | nil => rfl
  | cons e es ih =>
    simp only [List.map_cons, List.mem_cons, not_or] at h
    simp only [writeAll, List.foldl_cons]
    have := ih (fsSet fs e.1 e.2) h.2
    simp only [writeAll] at this
    rw [this, fsGet_fsSet_other _ _ _ _ h.1]

theorem writeAll_mem (g : List (Path × Bytes)) (fs : FS) (hn : (g.map (·.1)).Nodup)
    (p : Path) (b : Bytes) (hm : (p, b) ∈ g) : fsGet (writeAll fs g) p = some b := by
  induction g generalizing fs with
  | nil => cases hm
  | cons e es ih =>
    simp only [List.map_cons, List.nodup_cons] at hn
    simp only [writeAll, List.foldl_cons]
    rcases List.mem_cons.1 hm with rfl | hm
    · have := writeAll_other es (fsSet fs p b) p hn.1
      simp only [writeAll] at this
      rw [this, fsGet_fsSet_same]
    · exact ih _ hn.2 hm

/-- one fault-free iteration of the write loop -/
theorem body_step (env : Env) (s : St) (f : Path × Bytes)
    (hr : s.returned = none) (hs : s.stuck = false)
    (hm : env.mkdirFails f.1 = false) (hw : env.writeFails f.1 = false) :
    let s' := execList env { s with cur := some f } loopBody
    s'.fs = fsSet s.fs f.1 f.2 ∧ s'.returned = none ∧ s'.stuck = false ∧ s'.generated = s.generated := by
  obtain ⟨p, b⟩ := f
  simp [loopBody, execList, execStmt, callEff, hr, hs, hm, hw]

theorem range_ok (env : Env) (g : List (Path × Bytes)) (s : St)
    (hr : s.returned = none) (hs : s.stuck = false)
    (hf : ∀ p, env.mkdirFails p = false ∧ env.writeFails p = false) :
    (rangeLoop (fun s' => execList env s' loopBody) g s).fs = writeAll s.fs g ∧
    (rangeLoop (fun s' => execList env s' loopBody) g s).returned = none ∧
    (rangeLoop (fun s' => execList env s' loopBody) g s).stuck = false := by
  induction g generalizing s with
  | nil => simp [rangeLoop, writeAll, hr, hs]
  | cons f fs ih =>
    have hb := body_step env s f hr hs (hf f.1).1 (hf f.1).2
    simp only at hb
    obtain ⟨h1, h2, h3, _⟩ := hb
    have := ih _ h2 h3
    rw [h1] at this
    rw [rangeLoop]
    have hcnd : (s.returned.isSome || s.stuck) = false := by simp [hr, hs]
    simp only [hcnd, Bool.false_eq_true, if_false]
    simp only [writeAll, List.foldl_cons] at this ⊢
    exact this

def skeletonPrefix : List Stmt := [
  .ifElse "configFilename != \"\""
    [.call .readConfig, .ifErrReturn]
    [.call .readConfigDefault, .ifErrReturn],
  .call .generate, .ifErrReturn]

theorem execList_stopped (env : Env) (s : St) (l : List Stmt)
    (h : (s.returned.isSome || s.stuck) = true) : execList env s l = s := by
  cases l with
  | nil => rw [execList]
  | cons a l => rw [execList]; simp only [h, if_true]

theorem execList_append (env : Env) (s : St) (a b : List Stmt) :
    execList env s (a ++ b) = execList env (execList env s a) b := by
  induction a generalizing s with
  | nil => simp [execList]
  | cons x xs ih =>
    by_cases h : (s.returned.isSome || s.stuck) = true
    · rw [List.cons_append, execList_stopped env s _ h, execList_stopped env s _ h, execList_stopped env s _ h]
    · rw [List.cons_append, execList, execList]
      simp only [h, Bool.false_eq_true, if_false]
      exact ih _

end Lemmas

/-- **C20_skeleton_tie** — the statement skeleton extracted from generate/main.go on this run
    is the one the theorems below are about, and the only functions of package generate that
    touch the file system for writing are `initConfig` and `readConfigGenerateAndWrite`. -/
theorem C20_skeleton_tie :
    Extracted.mainSkeleton = skeleton ∧ Extracted.writeEffectFns = writeEffectFns :=
  ⟨rfl, rfl⟩

/-- **C20_fail_no_write** — if configuration loading or generation reports an error, the file
    system is exactly what it was and the error is returned. -/
theorem C20_fail_no_write (env : Env) (fs : FS)
    (h : env.cfgFails = true ∨ (env.cfgFails = false ∧ env.genResult = none)) :
    (run env fs).fs = fs ∧ (run env fs).returned = some true := by
  rcases h with h | ⟨hc, hg⟩
  · cases he : env.explicitConfig <;>
      simp [run, skeleton, execList, execStmt, callEff, h, he]
  · cases he : env.explicitConfig <;>
      simp [run, skeleton, execList, execStmt, callEff, hc, hg, he]

/-- **C20_success_exact** — on success (no OS-level fault) every generated file holds exactly
    the generator's bytes and no other path changed. -/
theorem C20_success_exact (env : Env) (fs : FS) (g : List (Path × Bytes))
    (hc : env.cfgFails = false) (hg : env.genResult = some g)
    (hn : (g.map (·.1)).Nodup)
    (hf : ∀ p, env.mkdirFails p = false ∧ env.writeFails p = false) :
    (run env fs).returned = some false ∧
    (∀ p b, (p, b) ∈ g → fsGet (run env fs).fs p = some b) ∧
    (∀ q, q ∉ g.map (·.1) → fsGet (run env fs).fs q = fsGet fs q) := by
  have key : (run env fs).returned = some false ∧ (run env fs).fs = writeAll fs g := by
    have hsk : skeleton = skeletonPrefix ++ ([.rangeGenerated loopBody] ++ [.retNil]) := rfl
    rw [run, hsk, execList_append, execList_append]
    have hp : execList env { fs := fs } skeletonPrefix =
        { fs := fs, err := false, cfgLoaded := true, generated := g } := by
      cases he : env.explicitConfig <;>
        simp [skeletonPrefix, execList, execStmt, callEff, hc, hg, he]
    rw [hp]
    have hr := range_ok env g { fs := fs, err := false, cfgLoaded := true, generated := g } rfl rfl hf
    obtain ⟨h1, h2, h3⟩ := hr
    have hl : execList env { fs := fs, err := false, cfgLoaded := true, generated := g } [.rangeGenerated loopBody] =
        rangeLoop (fun s' => execList env s' loopBody) g { fs := fs, err := false, cfgLoaded := true, generated := g } := by
      rw [execList, execList]
      simp only [Option.isSome_none, Bool.or_self, Bool.false_eq_true, if_false, execStmt]
    rw [hl]
    rw [execList, execList]
    simp only [h2, h3, Option.isSome_none, Bool.or_self, Bool.false_eq_true, if_false, execStmt]
    exact ⟨trivial, h1⟩
  obtain ⟨k1, k2⟩ := key
  refine ⟨k1, ?_, ?_⟩
  · intro p b hm; rw [k2]; exact writeAll_mem g fs hn p b hm
  · intro q hq; rw [k2]; exact writeAll_other g fs q hq

/-- An OS-level write fault (not a genqlient error) is outside the property; the model still
    returns an error for it. -/
theorem C20_write_fault_reported (env : Env) (fs : FS) (p : Path) (b : Bytes)
    (hc : env.cfgFails = false) (hg : env.genResult = some [(p, b)])
    (hw : env.writeFails p = true) (hm : env.mkdirFails p = false) :
    (run env fs).returned = some true := by
  cases he : env.explicitConfig <;>
    simp [run, skeleton, execList, execStmt, rangeLoop, callEff, hc, hg, he, hw, hm]

/-- one iteration of the write loop under ANY fault assignment touches at most its own path and never gets stuck -/
theorem body_step_any (env : Env) (s : St) (f : Path × Bytes) (q : Path) (hq : q ≠ f.1)
    (hr : s.returned = none) (hs : s.stuck = false) :
    let s' := execList env { s with cur := some f } loopBody
    fsGet s'.fs q = fsGet s.fs q ∧ s'.stuck = false := by
  obtain ⟨p, b⟩ := f
  simp only at hq
  cases hm : env.mkdirFails p <;> cases hw : env.writeFails p <;>
    simp [loopBody, execList, execStmt, callEff, hr, hs, hm, hw, fsGet_fsSet_other _ _ _ _ hq]

theorem range_any (env : Env) (g : List (Path × Bytes)) (s : St) (q : Path) (hq : q ∉ g.map (·.1))
    (hs : s.stuck = false) :
    fsGet (rangeLoop (fun s' => execList env s' loopBody) g s).fs q = fsGet s.fs q ∧
    (rangeLoop (fun s' => execList env s' loopBody) g s).stuck = false := by
  induction g generalizing s with
  | nil => simp [rangeLoop, hs]
  | cons f fs ih =>
    simp only [List.map_cons, List.mem_cons, not_or] at hq
    rw [rangeLoop]
    by_cases hcnd : (s.returned.isSome || s.stuck) = true
    · simp only [hcnd, if_true]; exact ⟨trivial, hs⟩
    · simp only [hcnd, Bool.false_eq_true, if_false]
      have hr : s.returned = none := by
        cases h : s.returned with
        | none => rfl
        | some r => simp [h] at hcnd
      have hb := body_step_any env s f q hq.1 hr hs
      simp only at hb
      have := ih _ hq.2 hb.2
      rw [this.1, hb.1]; exact ⟨rfl, this.2⟩

/-- **C20_faults_confined** — under EVERY assignment of configuration, generation and OS-level faults, a run only
    ever touches paths the generator named: any other path keeps its bytes, the interpreter never meets a
    statement it cannot run, and the run always returns. -/
theorem C20_faults_confined (env : Env) (fs : FS) (q : Path)
    (hq : ∀ g, env.genResult = some g → q ∉ g.map (·.1)) :
    fsGet (run env fs).fs q = fsGet fs q ∧ (run env fs).stuck = false ∧ (run env fs).returned.isSome = true := by
  by_cases hc : env.cfgFails = true
  · cases he : env.explicitConfig <;>
      simp [run, skeleton, execList, execStmt, callEff, hc, he]
  · have hc : env.cfgFails = false := by simpa using hc
    cases hg : env.genResult with
    | none =>
      cases he : env.explicitConfig <;>
        simp [run, skeleton, execList, execStmt, callEff, hc, hg, he]
    | some g =>
      have hsk : skeleton = skeletonPrefix ++ ([.rangeGenerated loopBody] ++ [.retNil]) := rfl
      rw [run, hsk, execList_append, execList_append]
      have hp : execList env { fs := fs } skeletonPrefix =
          { fs := fs, err := false, cfgLoaded := true, generated := g } := by
        cases he : env.explicitConfig <;>
          simp [skeletonPrefix, execList, execStmt, callEff, hc, hg, he]
      rw [hp]
      have hr := range_any env g { fs := fs, err := false, cfgLoaded := true, generated := g } q (hq g hg) rfl
      have hl : execList env { fs := fs, err := false, cfgLoaded := true, generated := g } [.rangeGenerated loopBody] =
          rangeLoop (fun s' => execList env s' loopBody) g { fs := fs, err := false, cfgLoaded := true, generated := g } := by
        rw [execList, execList]
        simp only [Option.isSome_none, Bool.or_self, Bool.false_eq_true, if_false, execStmt]
      rw [hl]
      generalize rangeLoop (fun s' => execList env s' loopBody) g { fs := fs, err := false, cfgLoaded := true, generated := g } = s1 at hr ⊢
      rw [execList]
      by_cases hcnd : (s1.returned.isSome || s1.stuck) = true
      · simp only [hcnd, if_true]
        refine ⟨hr.1, hr.2, ?_⟩
        simpa [hr.2] using hcnd
      · simp only [hcnd, Bool.false_eq_true, if_false, execList, execStmt]
        exact ⟨hr.1, hr.2, by simp⟩

-- non-vacuity: a mkdir fault on the second of three files; path 9 is not generated and keeps its bytes
example : fsGet (run ⟨true, false, some [(1, [9]), (2, [5]), (3, [4])], fun p => p == 2, fun _ => false⟩ [(9, [7]), (3, [0])]).fs 9 = some [7] := by decide

-- non-vacuity: a failing and a succeeding environment
example : (run ⟨true, false, none, fun _ => false, fun _ => false⟩ [(1, [7])]).fs = [(1, [7])] := by decide
example : fsGet (run ⟨true, false, some [(1, [9, 9]), (2, [5])], fun _ => false, fun _ => false⟩ [(1, [7, 7, 7])]).fs 1 = some [9, 9] := by decide

end Genq.Main
