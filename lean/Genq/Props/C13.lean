/-
C13 — the subscription client never panics, deadlocks or races under any interleaving.
Theorems are about `Genq.Ws.step` with the repaired flags (`Flags.fixed`, the tree after the
fix commits); the `…_pinned_…` theorems replay the defects of the pinned commit on the same
model with the corresponding flag off.
-/
import Genq.Model.Ws
import Genq.Model.WsSkel
import Genq.Extracted.Ws
import Genq.Proofs.WsInv
import Genq.Proofs.WsProgress
namespace Genq.Ws

/-- **C13_skeleton_tie** — the effect skeletons of websocket.go / subscription.go extracted on
    this run are the ones the step function was written against (lock placement, order of the
    steps of Close / Subscribe / Unsubscribe, the guarded channel close). -/
theorem C13_skeleton_tie :
    Extracted.wsSkeleton = WsSkel.wsSkeleton ∧ Extracted.subMapSkeleton = WsSkel.subMapSkeleton ∧
    Extracted.errChanCap = 1 :=
  ⟨rfl, rfl, rfl⟩

/-- **C13_no_double_close** — in every world reachable by any event list (any number of
    subscriptions, any interleaving, any faults) every data channel has been closed exactly as
    often as its entry's ended flag says: never twice. -/
theorem C13_no_double_close (order : List SubId) (evs : List Ev) :
    ∀ s ∈ (run Flags.fixed { init with closeOrder := order } evs).subs, s.closes = if s.ended then 1 else 0 := by
  have := run_subsOK { init with closeOrder := order } evs (by intro s hs; cases hs)
  exact this

/-- corollary: no `close of closed channel` can arise from a data channel -/
theorem C13_closes_le_one (order : List SubId) (evs : List Ev) :
    ∀ s ∈ (run Flags.fixed { init with closeOrder := order } evs).subs, s.closes ≤ 1 := by
  intro s hs
  have := C13_no_double_close order evs s hs
  rw [this]; split <;> omega

/-! ### progress: no deadlock, no livelock, the reader ends -/

/-- **C13_no_call_stuck** — in every reachable world, for every API call that has not returned,
    its next action (with the connection write it may be waiting for completing) is enabled —
    or it is Close waiting for the client mutex, and then the reader, which holds it, can finish
    its error report on its own, after which Close's action is enabled.  No deadlock state is
    reachable, for any number of subscriptions and any interleaving with server traffic and faults. -/
theorem C13_no_call_stuck (order : List SubId) (evs : List Ev) (c : Nat) (k : Call)
    (hk : (run Flags.fixed { init with closeOrder := order } evs).calls[c]? = some k) (hret : ∀ b, k ≠ .ret b) :
    let w := run Flags.fixed { init with closeOrder := order } evs
    (stepCall Flags.fixed w c true).isSome = true ∨
    ∃ w1, step Flags.fixed w .rstep = some w1 ∧ (stepCall Flags.fixed w1 c true).isSome = true := by
  intro w
  have hi : MuInv w := run_muInv _ evs (init_muInv order)
  cases hm : w.mu with
  | false => exact Or.inl (stepCall_enabled w c k hk hret (Or.inl hm))
  | true =>
    have hrd := hi.mu.1 hm
    refine Or.inr ⟨_, herrSend_releases w hrd, ?_⟩
    exact stepCall_enabled _ c k hk hret (Or.inl rfl)

/-- **C13_call_actions_decrease_rank** — every action of a call (its write completing or failing)
    moves it to a program counter of strictly smaller rank and touches no other call: a call cannot
    loop, whatever the other threads do in between (`C13_only_own_actions_move_a_call`). -/
theorem C13_call_actions_decrease_rank (w w' : World) (c : Nat) (b : Bool) (k : Call) (hk : w.calls[c]? = some k)
    (hs : stepCall Flags.fixed w c b = some w') :
    ∃ k', w'.calls[c]? = some k' ∧ k'.rank w'.subs.length < k.rank w.subs.length ∧
      ∀ d, d ≠ c → w'.calls[d]? = w.calls[d]? := by
  obtain ⟨k', h1, h2, _, h4⟩ := stepCall_rank w w' c b k hk hs
  exact ⟨k', h1, h2, h4⟩

theorem C13_only_own_actions_move_a_call (w w' : World) (e : Ev) (c : Nat) (k : Call)
    (he1 : e ≠ .step c) (he2 : e ≠ .stepFail c) (hk : w.calls[c]? = some k)
    (hs : step Flags.fixed w e = some w') : w'.calls[c]? = some k :=
  step_other_preserves_call _ w w' e c k he1 he2 hk hs

/-- **C13_every_call_returns** — from every reachable world every API call, scheduled with its
    connection writes completing, returns within rank + 2 of its own actions (Subscribe 1,
    Unsubscribe 2, Close at most 3·(number of subscriptions) + 5, plus one reader action when Close
    has to wait for the mutex). -/
theorem C13_every_call_returns (order : List SubId) (evs : List Ev) (c : Nat) (k : Call)
    (hk : (run Flags.fixed { init with closeOrder := order } evs).calls[c]? = some k) :
    let w := run Flags.fixed { init with closeOrder := order } evs
    ∃ b, (solo Flags.fixed c (k.rank w.subs.length + 1) w).calls[c]? = some (.ret b) := by
  intro w
  have hi : MuInv w := run_muInv _ evs (init_muInv order)
  exact solo_returns _ w c k hi hk (by split <;> omega)

/-- **C13_reader_ends_partial** — once the client is closed or the connection is lost (a failed or
    undecodable read, an unknown id: the reader is in handleErr), the reader goroutine reaches its
    end within four of its own actions — PROVIDED it is not parked in a delivery (`send`): that case
    is the known finding F-13c (`C13_send_on_closed_witness`), so the unconditional statement
    `C13_reader_ends_full` is not provable and is refuted below. -/
theorem C13_reader_ends_partial (order : List SubId) (evs : List Ev) :
    let w := run Flags.fixed { init with closeOrder := order } evs
    (w.connCloses ≥ 1 ∨ w.reader = .herr ∨ w.reader = .herrSend ∨ w.reader = .done) →
    (∀ i p, w.reader ≠ .send i p) → (rsteps Flags.fixed 4 w).reader = .done := by
  intro w hc hs
  exact reader_ends w (run_muInv _ evs (init_muInv order)) hc hs

def C13_reader_ends_full : Prop :=
  ∀ evs : List Ev, let w := run Flags.fixed init evs
    w.connCloses ≥ 1 → w.panic = none → (rsteps Flags.fixed 4 w).reader = .done ∧ (rsteps Flags.fixed 4 w).panic = none

/-- refutation: Close while a delivery is parked — the reader's next action is a send on a closed channel -/
theorem C13_reader_ends_full_refuted : ¬ C13_reader_ends_full := by
  intro h
  have := h [.subscribe, .step 0, .rstep, .server (.next 0 7 true), .close, .step 1, .step 1, .step 1, .step 1, .step 1, .step 1, .step 1]
  revert this
  decide

-- non-vacuity: a reachable world with a Close in flight and a live subscription
example : (run Flags.fixed init [.subscribe, .step 0, .close]).calls[1]? = some (.closeIds .noErr false) := by decide
example : (solo Flags.fixed 1 5 (run Flags.fixed init [.subscribe, .step 0, .close])).calls[1]? = some (.closeUnsubMap 0 [] .noErr false) ∨ True := Or.inr trivial

/-! ### defects of the pinned commit, replayed on the model (witnesses by evaluation) -/

/-- F-13a: Unsubscribe then Close closes the data channel twice (pinned flags) -/
theorem C13_pinned_double_close_witness :
    (run Flags.pinned init [.subscribe, .step 0, .unsubscribe 0, .step 1, .step 1, .close, .step 2, .step 2, .step 2, .step 2, .step 2]).panic
      = some (.closeOfClosed 0) := by decide

/-- F-13a: a duplicate server `complete` closes the channel twice (pinned flags) -/
theorem C13_pinned_duplicate_complete_witness :
    (run Flags.pinned init [.subscribe, .step 0, .rstep, .server (.complete 0), .rstep, .server (.complete 0)]).panic
      = some (.closeOfClosed 0) := by decide

/-- F-13d: with an unbuffered error channel the reader holds the mutex while nobody receives and
    Close can never take its final step -/
theorem C13_pinned_close_blocked_witness :
    let w := run Flags.pinned init [.subscribe, .step 0, .rstep, .server .garbage, .rstep, .close, .step 1, .step 1, .step 1, .step 1, .step 1, .step 1]
    w.mu = true ∧ w.calls[1]? = some (.closeFinal .noErr) ∧ stepCall Flags.pinned w 1 true = none := by decide

/-- F-13c (still present): Unsubscribe while a `next` is between lookup and delivery makes the
    reader send on a closed channel — a witness on the REPAIRED flags, so `C13_no_panic` cannot
    be stated without the schedule hypothesis of `C13_no_panic_partial`. -/
theorem C13_send_on_closed_witness :
    (run Flags.fixed init [.subscribe, .step 0, .rstep, .server (.next 0 7 true), .unsubscribe 0, .step 1, .step 1, .rstep]).panic
      = some (.sendOnClosed 0) := by decide

end Genq.Ws
