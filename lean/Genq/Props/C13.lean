/-
C13 — the subscription client never panics, deadlocks or races under any interleaving.
Theorems are about `Genq.Ws.step` with the repaired flags (`Flags.fixed`, the tree after the
fix commits); the `…_pinned_…` theorems replay the defects of the pinned commit on the same
model with the corresponding flag off.
-/
import Genq.Model.Ws
import Genq.Model.WsSkel
import Genq.Extracted.Ws
import Genq.Proofs.WsInv
namespace Genq.Ws

/-- **C13_skeleton_tie** — the effect skeletons of websocket.go / subscription.go extracted on
    this run are the ones the step function was written against (lock placement, order of the
    steps of Close / Subscribe / Unsubscribe, the guarded channel close). -/
theorem C13_skeleton_tie :
    Extracted.wsSkeleton = WsSkel.wsSkeleton ∧ Extracted.subMapSkeleton = WsSkel.subMapSkeleton ∧
    Extracted.errChanCap = 1 :=
  ⟨rfl, rfl, rfl⟩

/-- **C13_no_double_close** — in every world reachable by any event list (any number of
    subscriptions, any interleaving, any faults) every data channel has been closed exactly as
    often as its entry's ended flag says: never twice. -/
theorem C13_no_double_close (order : List SubId) (evs : List Ev) :
    ∀ s ∈ (run Flags.fixed { init with closeOrder := order } evs).subs, s.closes = if s.ended then 1 else 0 := by
  have := run_subsOK { init with closeOrder := order } evs (by intro s hs; cases hs)
  exact this

/-- corollary: no `close of closed channel` can arise from a data channel -/
theorem C13_closes_le_one (order : List SubId) (evs : List Ev) :
    ∀ s ∈ (run Flags.fixed { init with closeOrder := order } evs).subs, s.closes ≤ 1 := by
  intro s hs
  have := C13_no_double_close order evs s hs
  rw [this]; split <;> omega

/-! ### defects of the pinned commit, replayed on the model (witnesses by evaluation) -/

/-- F-13a: Unsubscribe then Close closes the data channel twice (pinned flags) -/
theorem C13_pinned_double_close_witness :
    (run Flags.pinned init [.subscribe, .step 0, .unsubscribe 0, .step 1, .step 1, .close, .step 2, .step 2, .step 2, .step 2, .step 2]).panic
      = some (.closeOfClosed 0) := by decide

/-- F-13a: a duplicate server `complete` closes the channel twice (pinned flags) -/
theorem C13_pinned_duplicate_complete_witness :
    (run Flags.pinned init [.subscribe, .step 0, .rstep, .server (.complete 0), .rstep, .server (.complete 0)]).panic
      = some (.closeOfClosed 0) := by decide

/-- F-13d: with an unbuffered error channel the reader holds the mutex while nobody receives and
    Close can never take its final step -/
theorem C13_pinned_close_blocked_witness :
    let w := run Flags.pinned init [.subscribe, .step 0, .rstep, .server .garbage, .rstep, .close, .step 1, .step 1, .step 1, .step 1, .step 1, .step 1]
    w.mu = true ∧ w.calls[1]? = some (.closeFinal .noErr) ∧ stepCall Flags.pinned w 1 true = none := by decide

/-- F-13c (still present): Unsubscribe while a `next` is between lookup and delivery makes the
    reader send on a closed channel — a witness on the REPAIRED flags, so `C13_no_panic` cannot
    be stated without the schedule hypothesis of `C13_no_panic_partial`. -/
theorem C13_send_on_closed_witness :
    (run Flags.fixed init [.subscribe, .step 0, .rstep, .server (.next 0 7 true), .unsubscribe 0, .step 1, .step 1, .rstep]).panic
      = some (.sendOnClosed 0) := by decide

end Genq.Ws
