/-
C14 — subscription data reaches only its own channel, in order, once; the channel closes once.
-/
import Genq.Model.Ws
import Genq.Proofs.WsInv
import Genq.Proofs.WsData
import Genq.Proofs.WsPrefix
import Genq.Model.ClientSkel
import Genq.Extracted.Client
namespace Genq.Ws

/-- **C14_nothing_after_end** — once a subscription has ended (server `complete` processed,
    Unsubscribe or Close having marked it) and the reader is not in the middle of a delivery
    to it, no event list — whatever the server sends, whatever the application calls —
    delivers anything more on its channel, and it stays ended. -/
theorem C14_nothing_after_end (w : World) (evs : List Ev) (i : SubId) (s : Sub)
    (hs : w.subs[i]? = some s) (he : s.ended = true) (hr : ∀ p, w.reader ≠ .send i p) :
    ∃ s', (run Flags.fixed w evs).subs[i]? = some s' ∧ s'.delivered = s.delivered ∧ s'.ended = true := by
  obtain ⟨⟨⟨s', hs', he'⟩, _⟩, hd⟩ := run_quiet w evs i ⟨⟨s, hs, he⟩, hr⟩
  exact ⟨s', hs', hd s s' hs hs', he'⟩

/-- **C14_closed_exactly_once** — in every reachable world an ended subscription's channel has
    been closed exactly once, a live one's never. -/
theorem C14_closed_exactly_once (order : List SubId) (evs : List Ev) (i : SubId) (s : Sub)
    (hs : (run Flags.fixed { init with closeOrder := order } evs).subs[i]? = some s) :
    (s.ended = true → s.closes = 1) ∧ (s.ended = false → s.closes = 0) := by
  have := run_subsOK { init with closeOrder := order } evs (by intro s hs; cases hs) s (List.mem_of_getElem? hs)
  unfold SubOK at this
  constructor <;> intro h <;> simp [h] at this <;> exact this

/-- **C14_unsubscribe_ends** — the map update of a successful Unsubscribe marks the entry as
    ended (so, by C14_closed_exactly_once, its channel is closed). -/
theorem C14_unsubscribe_ends (w w' : World) (c : Nat) (i : SubId) (s : Sub)
    (hc : w.calls[c]? = some (.unsubMap i)) (hs : getSub w i = some s) (hr : s.registered = true)
    (hstep : stepCall Flags.fixed w c true = some w') :
    (∃ s', getSub w' i = some s' ∧ s'.ended = true) ∧ w'.calls[c]? = some (.ret true) := by
  unfold stepCall at hstep
  simp only [hc, hs, hr, Bool.not_true, Bool.false_eq_true, if_false, Option.some.injEq] at hstep
  subst hstep
  have hlt : i < w.subs.length := (List.getElem?_eq_some_iff.1 hs).1
  have hcl : c < w.calls.length := (List.getElem?_eq_some_iff.1 hc).1
  constructor
  · unfold endSub
    simp only [hs, Flags.fixed, if_true]
    by_cases he : s.ended = true
    · simp only [he, if_true]; exact ⟨s, hs, he⟩
    · simp only [he, Bool.false_eq_true, if_false, getSub, setCall, setSub, List.getElem?_set, if_true, hlt]
      exact ⟨_, rfl, rfl⟩
  · have : (endSub Flags.fixed w i true).calls = w.calls := by
      unfold endSub
      simp only [hs, Flags.fixed, if_true]
      by_cases he : s.ended = true <;> simp [he, setSub]
    simp only [setCall, this, List.getElem?_set, if_true, hcl]

/-- F-13b on the pinned commit: a `next` after the server's `complete` is sent on the closed
    channel (the entry was not marked) -/
theorem C14_pinned_next_after_complete_witness :
    (run Flags.pinned init [.subscribe, .step 0, .rstep, .server (.complete 0), .rstep,
      .server (.next 0 5 true), .rstep]).panic = some (.sendOnClosed 0) := by decide

/-- **C14_prefix_in_order** — for every event list (any interleaving of application calls, reader
    steps, server frames, write failures and receives): what the application has received on a
    channel is a prefix of the `next` payloads the reader dispatched to that entry — delivered in
    order, none twice, none invented, none from another subscription's frames. -/
theorem C14_prefix_in_order (order : List SubId) (evs : List Ev) (i : SubId) (s : Sub)
    (hs : (run Flags.fixed { init with closeOrder := order } evs).subs[i]? = some s) :
    s.delivered <+: s.nexts := by
  have h := run_pinv { init with closeOrder := order } evs (init_pinv order)
  exact prefix_of_entryOK _ i s (h.1 i s hs)

/-- … and at most one dispatched payload is still undelivered (the one the reader is blocked on):
    the reader never runs ahead of the application. -/
theorem C14_at_most_one_in_flight (order : List SubId) (evs : List Ev) (i : SubId) (s : Sub)
    (hs : (run Flags.fixed { init with closeOrder := order } evs).subs[i]? = some s) :
    s.nexts = s.delivered ∨ ∃ p, s.nexts = s.delivered ++ [p] := by
  have h := run_pinv { init with closeOrder := order } evs (init_pinv order)
  exact entryOK_done _ i s (h.1 i s hs)

-- non-vacuity: a run that delivers two payloads in order and then ends the subscription
example : ((run Flags.fixed init [.subscribe, .step 0, .rstep, .server (.next 0 1 true), .recvData 0, .rstep,
    .server (.next 0 2 true), .recvData 0, .unsubscribe 0, .step 1, .step 1]).subs[0]?).map
    (fun s => (s.delivered, s.ended, s.closes)) = some ([1, 2], true, 1) := by decide

end Genq.Ws

namespace Genq

/-- **C14_operation_template_tie** — the generated `<Op>ForwardData` (decode the payload, assert the channel's type,
    send) as the template in /repo says (regenerated on every run) -/
theorem C14_operation_template_tie : Extracted.operationTmpl = ClientSkel.operationTmpl := rfl

end Genq
