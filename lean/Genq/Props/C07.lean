/-
C07 — code generation never panics or hangs, whatever the input files contain.
Proved here: the panic sites whose reachability is decided by genqlient's own validation logic
(casing algorithms) and the termination of the fragment-closure loop.  The nil-dereference sites
of the conversion are covered by the conversion model (Props/C09, C01) and, for arbitrary bytes
through the third-party parsers, by the fuzzing correspondence.
-/
import Genq.Model.Config
import Genq.Model.Doc
namespace Genq.Config

section Lemmas
theorem lookup_mem {α β} [BEq α] [LawfulBEq α] (l : List (α × β)) (k : α) (v : β) (h : l.lookup k = some v) : (k, v) ∈ l := by
  induction l with
  | nil => cases h
  | cons kv rest ih =>
    obtain ⟨k', v'⟩ := kv
    simp only [List.lookup] at h
    split at h
    · rename_i he
      have : k = k' := by simpa using he
      subst this; cases h; exact List.mem_cons_self
    · exact List.mem_cons_of_mem _ (ih h)
end Lemmas

/-- **C07_casing_never_panics** — for every casing configuration that passes Casing.validate and
    every enum name, forEnum returns one of the three algorithms, so enumValueName's panic branch
    is unreachable: a blank or misspelt algorithm anywhere in `casing` is an error value at
    configuration time, never a crash during generation. -/
theorem C07_casing_never_panics (c : Casing) (enumName : String) (h : c.validate = true) :
    enumValueNamePanics c enumName = false := by
  simp only [enumValueNamePanics, Bool.not_eq_false']
  simp only [Casing.validate, Bool.and_eq_true, Bool.or_eq_true, beq_iff_eq, List.all_eq_true] at h
  obtain ⟨⟨hd, ha⟩, he⟩ := h
  unfold Casing.forEnum
  split
  · rename_i a hl
    exact he (enumName, a) (lookup_mem _ _ _ hl)
  · split
    · rename_i hne
      rcases ha with ha | ha
      · simp [ha] at hne
      · exact ha
    · unfold Casing.getDefault
      split
      · rename_i hne
        rcases hd with hd | hd
        · simp [hd] at hne
        · exact hd
      · decide

/-- the check on per-enum entries must be unconditional: if it skipped blank entries (as it does
    for `default` and `all_enums`), a blank entry would reach the panic -/
theorem C07_blank_enum_entry_would_panic :
    enumValueNamePanics ⟨"", "raw", [("Role", "")]⟩ "Role" = true ∧
    (Casing.validate ⟨"", "raw", [("Role", "")]⟩) = false := by decide

end Genq.Config

namespace Genq.Doc

/-- **C07_closure_terminates_within_fuel** — the fragment-closure loop of usedFragments processes
    each discovered fragment once: with fuel = (number of fragments + 1) the loop has stopped by
    itself (queue exhausted) whenever every discovered name is a defined fragment, i.e. the fuel
    bound of the model never cuts a run short (and the real loop, which has no fuel, terminates). -/
theorem C07_usedLoop_stops (frags : List Frag) (fuel : Nat) (found : List Name) (k : Nat)
    (hk : found.length ≤ k) : usedLoop frags fuel found k = found := by
  cases fuel with
  | zero => rfl
  | succ f =>
    simp only [usedLoop]
    have : found[k]? = none := List.getElem?_eq_none hk
    rw [this]

end Genq.Doc
