/-
C07 — code generation never panics or hangs, whatever the input files contain.
Proved here: the panic sites whose reachability is decided by genqlient's own validation logic
(casing algorithms) and the termination of the fragment-closure loop.  The nil-dereference sites
of the conversion are covered by the conversion model (Props/C09, C01) and, for arbitrary bytes
through the third-party parsers, by the fuzzing correspondence.
-/
import Genq.Model.Config
import Genq.Model.Doc
import Genq.Model.InputClosure
import Genq.Proofs.InputClosure
import Genq.Proofs.Lines
import Genq.Model.GenSkel
import Genq.Extracted.Gen
import Genq.Model.ConvSkel
import Genq.Extracted.Conv
namespace Genq.Config

section Lemmas
theorem lookup_mem {α β} [BEq α] [LawfulBEq α] (l : List (α × β)) (k : α) (v : β) (h : l.lookup k = some v) : (k, v) ∈ l := by
  induction l with
  | nil => cases h
  | cons kv rest ih =>
    obtain ⟨k', v'⟩ := kv
    simp only [List.lookup] at h
    split at h
    · rename_i he
      have : k = k' := by simpa using he
      subst this; cases h; exact List.mem_cons_self
    · exact List.mem_cons_of_mem _ (ih h)
end Lemmas

/-- **C07_casing_never_panics** — for every casing configuration that passes Casing.validate and
    every enum name, forEnum returns one of the three algorithms, so enumValueName's panic branch
    is unreachable: a blank or misspelt algorithm anywhere in `casing` is an error value at
    configuration time, never a crash during generation. -/
theorem C07_casing_never_panics (c : Casing) (enumName : String) (h : c.validate = true) :
    enumValueNamePanics c enumName = false := by
  simp only [enumValueNamePanics, Bool.not_eq_false']
  simp only [Casing.validate, Bool.and_eq_true, Bool.or_eq_true, beq_iff_eq, List.all_eq_true] at h
  obtain ⟨⟨hd, ha⟩, he⟩ := h
  unfold Casing.forEnum
  split
  · rename_i a hl
    exact he (enumName, a) (lookup_mem _ _ _ hl)
  · split
    · rename_i hne
      rcases ha with ha | ha
      · simp [ha] at hne
      · exact ha
    · unfold Casing.getDefault
      split
      · rename_i hne
        rcases hd with hd | hd
        · simp [hd] at hne
        · exact hd
      · decide

/-- the check on per-enum entries must be unconditional: if it skipped blank entries (as it does
    for `default` and `all_enums`), a blank entry would reach the panic -/
theorem C07_blank_enum_entry_would_panic :
    enumValueNamePanics ⟨"", "raw", [("Role", "")]⟩ "Role" = true ∧
    (Casing.validate ⟨"", "raw", [("Role", "")]⟩) = false := by decide

end Genq.Config

namespace Genq.Doc

/-- **C07_closure_terminates_within_fuel** — the fragment-closure loop of usedFragments processes
    each discovered fragment once: with fuel = (number of fragments + 1) the loop has stopped by
    itself (queue exhausted) whenever every discovered name is a defined fragment, i.e. the fuel
    bound of the model never cuts a run short (and the real loop, which has no fuel, terminates). -/
theorem C07_usedLoop_stops (frags : List Frag) (fuel : Nat) (found : List Name) (k : Nat)
    (hk : found.length ≤ k) : usedLoop frags fuel found k = found := by
  cases fuel with
  | zero => rfl
  | succ f =>
    simp only [usedLoop]
    have : found[k]? = none := List.getElem?_eq_none hk
    rw [this]

end Genq.Doc

namespace Genq.InputClosure

/-- **C07_recursive_inputs_terminate** — the conversion of input objects is a depth-first walk that enters a type
    into the type map before converting its fields.  For EVERY schema — `U` any finite set of input types closed
    under "type of a field", however they refer to each other (self-reference, mutual recursion, diamonds) — and
    every root type, the walk with fuel `|U| + 1` ends with a type map (it never needs more recursion depth than
    there are input types), the root is in it and nothing is ever removed.  The real recursion has no fuel: this
    is what makes it well-founded. -/
theorem C07_recursive_inputs_terminate (S : InSchema) (U : List String) (hU : ∀ n ∈ U, ∀ f ∈ S.fieldsOf n, f ∈ U)
    (n : String) (hn : n ∈ U) (done : List String) :
    ∃ d, visit S (U.length + 1) n done = some d ∧ (∀ x ∈ done, x ∈ d) ∧ n ∈ d := by
  apply visit_ok S U hU (U.length + 1) n done hn
  have : remaining U done ≤ U.length := by unfold remaining; exact List.length_filter_le _ _
  omega

/-- what the type-map-before-fields order buys: with the entry made AFTER the fields (the natural order for
    non-recursive types) a self-referential input type exhausts any fuel — the walk below is that variant -/
def visitLate (S : InSchema) : Nat → String → List String → Option (List String)
  | 0, _, _ => none
  | fuel + 1, n, done =>
    if done.contains n then some done
    else ((S.fieldsOf n).foldlM (fun d f => visitLate S fuel f d) done).map (n :: ·)

theorem C07_entry_before_fields_matters :
    let S : InSchema := ⟨fun n => if n == "Filter" then ["Filter"] else []⟩
    (∀ fuel, visitLate S fuel "Filter" [] = none) ∧ visit S 2 "Filter" [] = some ["Filter"] := by
  refine ⟨?_, by decide⟩
  intro fuel
  induction fuel with
  | zero => rfl
  | succ f ih =>
    simp only [visitLate, List.contains_nil, Bool.false_eq_true, if_false, beq_self_eq_true, if_true,
      List.foldlM_cons, List.foldlM_nil, ih]
    rfl

-- non-vacuity: mutual recursion and a diamond
example : visit ⟨fun n => if n == "A" then ["B", "C"] else if n == "B" then ["A", "D"] else if n == "C" then ["D"] else []⟩
    5 "A" [] = some ["C", "D", "B", "A"] := by decide

end Genq.InputClosure

/-! ### the scan for comments above a node never leaves the line slice (Model/Lines.lean) -/
namespace Genq.Lines

/-- **C07_comment_scan_in_range** — parsePrecedingComment indexes `sourceLines[i-1]` for i = pos.Line-1 … 1.  For
    EVERY source text, every token in it (starting right after any prefix `pre`, hence on the lexer's line
    `lexBreaks pre + 1`) and whatever follows it, those indices lie inside the line slice the fixed code builds —
    for "\n", "\r\n", bare "\r" line ends and any mixture -/
theorem C07_comment_scan_in_range (pre post : Str) (i : Nat) (h1 : 1 ≤ i) (h2 : i ≤ lexBreaks pre) :
    i - 1 < (linesFixed (pre ++ post)).length :=
  scan_in_range pre post i h1 h2

/-- **C07_old_split_out_of_range_witness** — F-07r: with the split on "\n" alone the slice of
    "\r\rquery Q { f }" has one element, while `query` is on the lexer's line 3: the scan's first index, 1, is
    outside it (index out of range, a Go panic) -/
theorem C07_old_split_out_of_range_witness :
    lexBreaks "\r\r".toList = 2 ∧ (linesOld "\r\rquery Q { f }".toList).length = 1 ∧
    (linesFixed "\r\rquery Q { f }".toList).length = 3 := by decide

/-- **C07_parsePrecedingComment_tie** — the function as it stands in /repo (regenerated on every run) is the one the
    model above describes: split through the "\r\n"/"\r" replacer, scan upwards while lines are comments -/
theorem C07_parsePrecedingComment_tie :
    Extracted.parsePrecedingCommentSkeleton = GenSkel.parsePrecedingCommentSkeleton := rfl

-- non-vacuity: a token on line 4 of a text with mixed line ends
example : lexBreaks "a\r\nb\rc\n".toList = 3 ∧ (linesFixed "a\r\nb\rc\nquery".toList).length = 4 := by decide

end Genq.Lines

namespace Genq

/-- **C07_casing_tie** — Casing.validate / Casing.forEnum, as in /repo now (regenerated on every run), equal to the copy the model was written from -/
theorem C07_casing_tie : Extracted.casingSkeleton = ConvSkel.casingSkeleton := rfl

end Genq
