/-
C18 — diagnostics point at the file and line of the offending operation.
The position arithmetic of generate/errors.go (errorPos.String / splitFilename) on plain file
names and on the pseudo file names `<file>.go:<line>` that parse.go gives to string literals.
-/
import Genq.Model.Files
namespace Genq.Files

section Lemmas

theorem splitOnColon_noColon (s : Str) (h : ∀ c ∈ s, c ≠ ':') : splitOnColon s = [s] := by
  induction s with
  | nil => rfl
  | cons c cs ih =>
    have hc : (c == ':') = false := by
      have := h c (List.mem_cons_self); simpa using this
    simp only [splitOnColon, hc, Bool.false_eq_true, if_false]
    rw [ih (fun x hx => h x (List.mem_cons_of_mem _ hx))]

theorem splitOnColon_one (a b : Str) (ha : ∀ c ∈ a, c ≠ ':') (hb : ∀ c ∈ b, c ≠ ':') :
    splitOnColon (a ++ ':' :: b) = [a, b] := by
  induction a with
  | nil => simp [splitOnColon, splitOnColon_noColon b hb]
  | cons c cs ih =>
    have hc : (c == ':') = false := by
      have := ha c (List.mem_cons_self); simpa using this
    simp only [List.cons_append, splitOnColon, hc, Bool.false_eq_true, if_false]
    rw [ih (fun x hx => ha x (List.mem_cons_of_mem _ hx))]

end Lemmas

/-- **C18_pos_string_plain** — for a file whose name has no colon, a position renders as
    `name:line` (and as the bare name when there is no line). -/
theorem C18_pos_string_plain (name : Str) (line : Nat) (h : ∀ c ∈ name, c ≠ ':') :
    posString name line = if line = 0 then name else name ++ ':' :: natToStr line := by
  unfold posString splitFilename
  rw [splitOnColon_noColon name h]
  by_cases hl : line = 0
  · subst hl; simp
  · simp only [hl, if_false]
    have : ((0 : Int) + (line : Int) != 0) = true := by
      simp; omega
    simp only [this, if_true]
    have e : ((0 : Int) + (line : Int)) = Int.ofNat line := by simp
    rw [e]
    rfl

/-- **C18_pos_string_literal** — for the pseudo file `file:L` that stands for a string literal
    whose opening quote is on line L of `file`, line `l` of the literal's text renders as
    `file:(L - 1 + l)`: the line in the Go file, provided the literal's text is handed to the
    GraphQL parser unchanged (so that its first line is on line L). -/
theorem C18_pos_string_literal (file : Str) (L l : Nat) (hf : ∀ c ∈ file, c ≠ ':')
    (hL : 1 ≤ L) (hl : 1 ≤ l) (hnum : atoi (natToStr L) = some L) (hd : ∀ c ∈ natToStr L, c ≠ ':') :
    posString (file ++ ':' :: natToStr L) l = file ++ ':' :: natToStr (L - 1 + l) := by
  unfold posString splitFilename
  rw [splitOnColon_one file (natToStr L) hf hd]
  simp only [hnum]
  have h1 : (((L : Int) - 1 + (l : Int)) != 0) = true := by simp; omega
  simp only [h1, if_true]
  have : ((L : Int) - 1 + (l : Int)) = Int.ofNat (L - 1 + l) := by
    show _ = ((L - 1 + l : Nat) : Int)
    omega
  rw [this]
  rfl

/-- the decimal rendering of a line number is read back by Atoi (instances; the general fact is
    Nat.repr/Atoi round-trip, sampled by the correspondence on every Go-literal case) -/
theorem C18_atoi_samples : atoi (natToStr 1) = some 1 ∧ atoi (natToStr 17) = some 17 ∧ atoi (natToStr 1204) = some 1204 := by
  decide

/-- F-18c: a file name that itself contains a colon is mis-split: the part after the colon is
    dropped from the diagnostic -/
theorem C18_colon_in_filename_witness :
    posString "dir:x/ops.graphql".toList 3 = "dir:3".toList := by decide

-- non-vacuity
example : posString "pkg/queries.go:12".toList 4 = "pkg/queries.go:15".toList := by decide
example : posString "ops.graphql".toList 7 = "ops.graphql:7".toList := by decide

end Genq.Files
