/-
C18 — diagnostics point at the file and line of the offending operation.
The position arithmetic of generate/errors.go (errorPos.String / splitFilename) on plain file
names and on the pseudo file names `<file>.go:<line>` that parse.go gives to string literals.
-/
import Genq.Model.Files
import Genq.Model.Errors
import Genq.Model.ConvSkel
import Genq.Extracted.Conv
namespace Genq.Files

section Lemmas

theorem splitOnColon_noColon (s : Str) (h : ∀ c ∈ s, c ≠ ':') : splitOnColon s = [s] := by
  induction s with
  | nil => rfl
  | cons c cs ih =>
    have hc : (c == ':') = false := by
      have := h c (List.mem_cons_self); simpa using this
    simp only [splitOnColon, hc, Bool.false_eq_true, if_false]
    rw [ih (fun x hx => h x (List.mem_cons_of_mem _ hx))]

theorem splitOnColon_one (a b : Str) (ha : ∀ c ∈ a, c ≠ ':') (hb : ∀ c ∈ b, c ≠ ':') :
    splitOnColon (a ++ ':' :: b) = [a, b] := by
  induction a with
  | nil => simp [splitOnColon, splitOnColon_noColon b hb]
  | cons c cs ih =>
    have hc : (c == ':') = false := by
      have := ha c (List.mem_cons_self); simpa using this
    simp only [List.cons_append, splitOnColon, hc, Bool.false_eq_true, if_false]
    rw [ih (fun x hx => ha x (List.mem_cons_of_mem _ hx))]

end Lemmas

/-- **C18_pos_string_plain** — for a file whose name has no colon, a position renders as
    `name:line` (and as the bare name when there is no line). -/
theorem C18_pos_string_plain (name : Str) (line : Nat) (h : ∀ c ∈ name, c ≠ ':') :
    posString name line = if line = 0 then name else name ++ ':' :: natToStr line := by
  unfold posString splitFilename
  rw [splitOnColon_noColon name h]
  by_cases hl : line = 0
  · subst hl; simp
  · simp only [hl, if_false]
    have : ((0 : Int) + (line : Int) != 0) = true := by
      simp; omega
    simp only [this, if_true]
    have e : ((0 : Int) + (line : Int)) = Int.ofNat line := by simp
    rw [e]
    rfl

/-- **C18_pos_string_literal** — for the pseudo file `file:L` that stands for a string literal
    whose opening quote is on line L of `file`, line `l` of the literal's text renders as
    `file:(L - 1 + l)`: the line in the Go file, provided the literal's text is handed to the
    GraphQL parser unchanged (so that its first line is on line L). -/
theorem C18_pos_string_literal (file : Str) (L l : Nat) (hf : ∀ c ∈ file, c ≠ ':')
    (hL : 1 ≤ L) (hl : 1 ≤ l) (hnum : atoi (natToStr L) = some (L : Int)) (hd : ∀ c ∈ natToStr L, c ≠ ':') :
    posString (file ++ ':' :: natToStr L) l = file ++ ':' :: natToStr (L - 1 + l) := by
  unfold posString splitFilename
  rw [splitOnColon_one file (natToStr L) hf hd]
  simp only [hnum]
  have h1 : (((L : Int) - 1 + (l : Int)) != 0) = true := by simp; omega
  simp only [h1, if_true]
  have : ((L : Int) - 1 + (l : Int)) = Int.ofNat (L - 1 + l) := by
    show _ = ((L - 1 + l : Nat) : Int)
    omega
  rw [this]
  rfl

/-- the decimal rendering of a line number is read back by Atoi (instances; the general fact is
    Nat.repr/Atoi round-trip, sampled by the correspondence on every Go-literal case) -/
theorem C18_atoi_samples : atoi (natToStr 1) = some 1 ∧ atoi (natToStr 17) = some 17 ∧ atoi (natToStr 1204) = some 1204 ∧
    atoi "-3".toList = some (-3) ∧ atoi "+7".toList = some 7 ∧ atoi "1x".toList = none ∧
    atoi "9223372036854775808".toList = none := by
  decide

/-- F-18c: a file name that itself contains a colon is mis-split: the part after the colon is
    dropped from the diagnostic -/
theorem C18_colon_in_filename_witness :
    posString "dir:x/ops.graphql".toList 3 = "dir:3".toList := by decide

-- non-vacuity
example : posString "pkg/queries.go:12".toList 4 = "pkg/queries.go:15".toList := by decide
example : posString "ops.graphql".toList 7 = "ops.graphql:7".toList := by decide

end Genq.Files

/-! ### errorf: which position a wrapped error ends up with (Model/Errors.lean; tied by the driver op
    `errors.errorf`, which the harness compares with the real `errorf` on random error trees) -/
namespace Genq.Errors
open Genq.Files (Str posString)

theorem wrapAll_genq : ∀ (ws : List (Str × Str)) (p : Option Pos) (m : Str) (w0 : E),
    ∃ w', wrapAll ws (.genq p m w0) = .genq p (wrapMsg ws m) w'
  | [], p, m, w0 => ⟨w0, rfl⟩
  | (a, b) :: ws, p, m, w0 => by
    obtain ⟨w', h⟩ := wrapAll_genq ws p m w0
    refine ⟨.genq p (wrapMsg ws m) w', ?_⟩
    simp only [wrapAll, h, errorf, errorfPos, asGenq, isNone, errText, wrapMsg, Bool.false_eq_true, if_false]

/-- **C18_errorf_position_priority** — the decision stated outright: an explicit position wins; otherwise the
    nearest genqlient error inside decides (with whatever position it has); otherwise the nearest GraphQL error
    that names a file, with its first location's line; otherwise there is none -/
theorem C18_errorf_position_priority (pos : Option Pos) (a b : Str) (w : E) :
    ∃ m, errorf pos a b w = .genq (errorfPos pos w) m w ∧
      (∀ p, pos = some p → errorfPos pos w = some p) ∧
      (∀ gp gm, pos = none → asGenq w = some (gp, gm) → errorfPos pos w = gp) ∧
      (∀ f l gm, pos = none → asGenq w = none → asGql w = some (f, l, gm) →
          errorfPos pos w = if f.isEmpty then none else some ⟨f, l.getD 0⟩) ∧
      (pos = none → asGenq w = none → asGql w = none → errorfPos pos w = none) := by
  refine ⟨_, rfl, ?_, ?_, ?_, ?_⟩
  · intro p h; subst h; rfl
  · intro gp gm h hg; subst h; simp only [errorfPos, hg]
  · intro f l gm h hg hq; subst h; simp only [errorfPos, hg, hq]
  · intro h hg hq; subst h; simp only [errorfPos, hg, hq]

/-- **C18_wrapped_position_survives** — an error made with an explicit position `p`, wrapped by ANY number of
    position-less errorf calls, prints as `p: ` followed by the messages nested around the innermost one; the
    position is at the front and is not repeated in the middle -/
theorem C18_wrapped_position_survives (ws : List (Str × Str)) (p : Pos) (a b : Str) (w : E) :
    (wrapAll ws (errorf (some p) a b w)).text =
      posString p.file p.line ++ ": ".toList ++
        wrapMsg ws (if isNone w then a ++ b else a ++ errText w ++ b) := by
  unfold errorf
  obtain ⟨w', h⟩ := wrapAll_genq ws (errorfPos (some p) w) (if isNone w then a ++ b else a ++ errText w ++ b) w
  rw [h]
  rfl

/-- **C18_validator_error_position** — a validation failure (gqlerror.List whose first error names file `f` and
    line `l`), wrapped without an explicit position any number of times, prints as `f:l: …` -/
theorem C18_validator_error_position (ws : List (Str × Str)) (f : Str) (l : Nat) (m : Str)
    (rest : List (Str × Option Nat × Str)) (a b : Str) (hf : f.isEmpty = false) :
    (wrapAll ws (errorf none a b (.gqlList ((f, some l, m) :: rest)))).text =
      posString f l ++ ": ".toList ++ wrapMsg ws (a ++ m ++ b) := by
  have : errorf none a b (.gqlList ((f, some l, m) :: rest)) =
      .genq (some ⟨f, l⟩) (a ++ m ++ b) (.gqlList ((f, some l, m) :: rest)) := by
    simp [errorf, errorfPos, asGenq, asGql, isNone, errText, hf]
  rw [this]
  obtain ⟨w', h⟩ := wrapAll_genq ws (some ⟨f, l⟩) (a ++ m ++ b) (.gqlList ((f, some l, m) :: rest))
  rw [h]
  rfl

/-- an outer explicit position replaces an inner one (witness): the call sites must therefore pass a position
    only where they know the offending node better than the error they wrap — decided per input by the
    differential runs of this property -/
theorem C18_outer_explicit_position_replaces_inner_witness :
    (errorf (some ⟨"a.graphql".toList, 2⟩) "x: ".toList [] (errorf (some ⟨"a.graphql".toList, 9⟩) "bad".toList [] .none)).text
      = "a.graphql:2: x: bad".toList := by decide

-- non-vacuity: two wraps around a positioned error, and around a validator error
example : (wrapAll [("op: ".toList, []), ("field: ".toList, " (sic)".toList)]
    (errorf (some ⟨"q.go:10".toList, 3⟩) "bad".toList [] .none)).text = "q.go:12: op: field: bad (sic)".toList := by decide
example : (wrapAll [("validating: ".toList, [])] (errorf none [] []
    (.gqlList [("ops.graphql".toList, some 4, "Unknown field".toList)]))).text = "ops.graphql:4: validating: Unknown field".toList := by decide

end Genq.Errors

namespace Genq

/-- **C18_parse_tie** — how sources get their (pseudo) file names, as in /repo now (regenerated on every run), equal to the copy the model was written from -/
theorem C18_parse_tie : Extracted.parseSkeleton = ConvSkel.parseSkeleton := rfl

/-- **C18_errors_tie** — errorPos.String, splitFilename, genqlientError.Error, errorf, as in /repo now (regenerated on every run), equal to the copy the model was written from -/
theorem C18_errors_tie : Extracted.errorsSkeleton = ConvSkel.errorsSkeleton := rfl

end Genq
