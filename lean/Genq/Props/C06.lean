/-
C06 — generated types round-trip through JSON and re-marshal to what they decoded.
Proved here: the flattened field list that MarshalJSON serialises has every JSON name once —
also when several embedded fragments (or the struct itself and a fragment) carry it — and
loses none; the round-trip equalities themselves are decided on the compiled code by the probe.
-/
import Genq.Model.Types
namespace Genq.Types

section Lemmas

/-- loop invariant: the accumulated JSON names are exactly `seen`, without repetition -/
theorem flattenLoop_inv (fuel : Nat) (q : List SField) (seen : List Name) (acc : List (Name × Name))
    (h1 : (acc.map (·.2)).Nodup) (h2 : ∀ j, j ∈ seen ↔ j ∈ acc.map (·.2)) :
    ((flattenLoop fuel q seen acc).map (·.2)).Nodup := by
  induction fuel generalizing q seen acc with
  | zero => simpa [flattenLoop] using h1
  | succ f ih =>
    cases q with
    | nil => simpa [flattenLoop] using h1
    | cons x q =>
      cases x with
      | embed t sub => simp only [flattenLoop]; exact ih _ _ _ h1 h2
      | plain g j =>
        simp only [flattenLoop]
        split
        · exact ih _ _ _ h1 h2
        · rename_i hc
          have hnm : j ∉ acc.map (·.2) := by
            intro hm
            exact hc (List.contains_iff_mem.2 ((h2 j).2 hm))
          apply ih
          · simp only [List.map_append, List.map_cons, List.map_nil]
            rw [List.nodup_append]
            refine ⟨h1, by simp, ?_⟩
            intro a ha b hb
            simp only [List.mem_singleton] at hb
            subst hb
            intro hab; subst hab; exact hnm ha
          · intro k
            simp only [List.mem_cons, List.map_append, List.map_cons, List.map_nil, List.mem_append, List.not_mem_nil, or_false]
            rw [h2 k]
            constructor
            · rintro (h | h)
              · exact Or.inr h
              · exact Or.inl h
            · rintro (h | h)
              · exact Or.inr h
              · exact Or.inl h

/-- what is accumulated only grows -/
theorem flattenLoop_mono (fuel : Nat) (q : List SField) (seen : List Name) (acc : List (Name × Name)) :
    ∀ x ∈ acc, x ∈ flattenLoop fuel q seen acc := by
  induction fuel generalizing q seen acc with
  | zero => intro x hx; simpa [flattenLoop] using hx
  | succ f ih =>
    intro x hx
    cases q with
    | nil => simpa [flattenLoop] using hx
    | cons y q =>
      cases y with
      | embed t sub => simp only [flattenLoop]; exact ih _ _ _ x hx
      | plain g j =>
        simp only [flattenLoop]
        split
        · exact ih _ _ _ x hx
        · exact ih _ _ _ x (List.mem_append_left _ hx)

end Lemmas

/-- **C06_unique_keys** — the struct MarshalJSON serialises has each JSON name exactly once,
    however many embedded fragment structs (at whatever depth) carry a field of that name. -/
theorem C06_unique_keys (fields : List SField) : ((flattenedFields fields).map (·.2)).Nodup := by
  unfold flattenedFields
  exact flattenLoop_inv _ _ _ _ (by simp) (by simp)

/-- **C06_direct_field_wins** — a field of the struct itself is never displaced by a field of an
    embedded fragment: the first direct field is always serialised from the struct's own value -/
theorem C06_direct_field_wins (g j : Name) (rest : List SField) :
    (g, j) ∈ flattenedFields (.plain g j :: rest) := by
  unfold flattenedFields
  have hs : sizeList (SField.plain g j :: rest) + 1 = (sizeList rest + 1) + 1 := by
    simp only [sizeList, size]; omega
  rw [hs]
  simp only [flattenLoop, List.contains_nil, Bool.false_eq_true, if_false, List.nil_append]
  exact flattenLoop_mono _ _ _ _ _ (List.mem_singleton.2 rfl)

/-- the defect a de-duplication by Go name instead of JSON name would cause (two embedded
    fragments carrying `id`, one renamed on the Go side): the key would be emitted twice —
    witness that uniqueness is really about JSON names -/
theorem C06_json_name_is_the_key :
    flattenedFields [.embed "A" [.plain "Id" "id"], .embed "B" [.plain "ID" "id", .plain "Name" "name"]]
      = [("Id", "id"), ("Name", "name")] := by decide

end Genq.Types
