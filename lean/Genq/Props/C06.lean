/-
C06 — generated types round-trip through JSON and re-marshal to what they decoded.
Proved here: the flattened field list that MarshalJSON serialises has every JSON name once —
also when several embedded fragments (or the struct itself and a fragment) carry it — and
loses none; the round-trip equalities themselves are decided on the compiled code by the probe.
-/
import Genq.Model.Types
import Genq.Model.Codec
import Genq.Model.CodecSkel
import Genq.Extracted.Codec
import Genq.Proofs.CodecRT
import Genq.Proofs.CodecImg
import Genq.Proofs.FlattenAgree
namespace Genq.Types

section Lemmas

/-- loop invariant: the accumulated JSON names are exactly `seen`, without repetition -/
theorem flattenLoop_inv (fuel : Nat) (q : List SField) (seen : List Name) (acc : List (Name × Name))
    (h1 : (acc.map (·.2)).Nodup) (h2 : ∀ j, j ∈ seen ↔ j ∈ acc.map (·.2)) :
    ((flattenLoop fuel q seen acc).map (·.2)).Nodup := by
  induction fuel generalizing q seen acc with
  | zero => simpa [flattenLoop] using h1
  | succ f ih =>
    cases q with
    | nil => simpa [flattenLoop] using h1
    | cons x q =>
      cases x with
      | embed t sub => simp only [flattenLoop]; exact ih _ _ _ h1 h2
      | plain g j =>
        simp only [flattenLoop]
        split
        · exact ih _ _ _ h1 h2
        · rename_i hc
          have hnm : j ∉ acc.map (·.2) := by
            intro hm
            exact hc (List.contains_iff_mem.2 ((h2 j).2 hm))
          apply ih
          · simp only [List.map_append, List.map_cons, List.map_nil]
            rw [List.nodup_append]
            refine ⟨h1, by simp, ?_⟩
            intro a ha b hb
            simp only [List.mem_singleton] at hb
            subst hb
            intro hab; subst hab; exact hnm ha
          · intro k
            simp only [List.mem_cons, List.map_append, List.map_cons, List.map_nil, List.mem_append, List.not_mem_nil, or_false]
            rw [h2 k]
            constructor
            · rintro (h | h)
              · exact Or.inr h
              · exact Or.inl h
            · rintro (h | h)
              · exact Or.inr h
              · exact Or.inl h

/-- what is accumulated only grows -/
theorem flattenLoop_mono (fuel : Nat) (q : List SField) (seen : List Name) (acc : List (Name × Name)) :
    ∀ x ∈ acc, x ∈ flattenLoop fuel q seen acc := by
  induction fuel generalizing q seen acc with
  | zero => intro x hx; simpa [flattenLoop] using hx
  | succ f ih =>
    intro x hx
    cases q with
    | nil => simpa [flattenLoop] using hx
    | cons y q =>
      cases y with
      | embed t sub => simp only [flattenLoop]; exact ih _ _ _ x hx
      | plain g j =>
        simp only [flattenLoop]
        split
        · exact ih _ _ _ x hx
        · exact ih _ _ _ x (List.mem_append_left _ hx)

end Lemmas

/-- **C06_unique_keys** — the struct MarshalJSON serialises has each JSON name exactly once,
    however many embedded fragment structs (at whatever depth) carry a field of that name. -/
theorem C06_unique_keys (fields : List SField) : ((flattenedFields fields).map (·.2)).Nodup := by
  unfold flattenedFields
  exact flattenLoop_inv _ _ _ _ (by simp) (by simp)

/-- **C06_direct_field_wins** — a field of the struct itself is never displaced by a field of an
    embedded fragment: the first direct field is always serialised from the struct's own value -/
theorem C06_direct_field_wins (g j : Name) (rest : List SField) :
    (g, j) ∈ flattenedFields (.plain g j :: rest) := by
  unfold flattenedFields
  have hs : sizeList (SField.plain g j :: rest) + 1 = (sizeList rest + 1) + 1 := by
    simp only [sizeList, size]; omega
  rw [hs]
  simp only [flattenLoop, List.contains_nil, Bool.false_eq_true, if_false, List.nil_append]
  exact flattenLoop_mono _ _ _ _ _ (List.mem_singleton.2 rfl)

/-- the defect a de-duplication by Go name instead of JSON name would cause (two embedded
    fragments carrying `id`, one renamed on the Go side): the key would be emitted twice —
    witness that uniqueness is really about JSON names -/
theorem C06_json_name_is_the_key :
    flattenedFields [.embed "A" [.plain "Id" "id"], .embed "B" [.plain "ID" "id", .plain "Name" "name"]]
      = [("Id", "id"), ("Name", "name")] := by decide

end Genq.Types

/-! ### the round trip, on the model of the generated (un)marshalers (Model/Codec.lean) -/

namespace Genq.Codec
open Genq.Types (J)

/-- **C06_roundtrip_model** — for every response type tree without fold twins and every value `v` of the shape
    decoding produces (canonical leaves; one JSON per response key across a struct and its embedded fragments;
    an implementation's own `__typename` field equal to the name it was dispatched on), unmarshaling what
    MarshalJSON wrote yields `v` again: `dec t (enc t v) = ok v`.  Any depth of lists, pointers, embedded
    fragments and abstract types. -/
theorem C06_roundtrip_model (t : Ty) (v : Val) (h : WF t v) (hf : noFoldTwins t = true) : dec t (enc t v) = .ok v :=
  rt t v h hf

/-- the same for a field handled through json.RawMessage (abstract or custom-marshaled, at any list depth) -/
theorem C06_roundtrip_special_model (t : Ty) (v : Val) (h : WFSpecial t v) (hf : noFoldTwins t = true) :
    decSpecial t (encSpecial t v) = .ok v :=
  rtSpecial t v h hf

/-- what the marshaled object guarantees each field: it reads back exactly the JSON written for its key -/
theorem C06_marshaled_object_covers_every_field (fs : Flds) (vs : List Val)
    (hf : noFoldTwinsIn ("__typename" :: closureNames fs) = true) (hc : Coherent (encAll fs vs 0)) :
    ∀ e ∈ encAll fs vs 0, lookup (winners (encAll fs vs 0)) e.2.1 = some e.2.2 :=
  structCovers fs vs hf hc

/-- **C06_marshaled_keys_unique_model** — whatever struct value is marshaled (any nesting of embedded fragments,
    any number of carriers per key), the object MarshalJSON writes has every key exactly once -/
theorem C06_marshaled_keys_unique_model (fs : Flds) (vs : List Val) :
    ((winners (encAll fs vs 0)).map (·.1)).Nodup := by
  unfold winners
  exact dedup_nodup _ _

/-- **C06_typename_once_model** — what the marshal helper writes for a non-nil abstract value whose implementation
    is a struct: the key `__typename` exactly once (first, holding the name dispatched on), also when the
    implementation has a `__typename` field of its own -/
theorem C06_typename_once_model (fs : Flds) (vs : List Val) (tn : String) :
    ∃ rest, encHead (.struct fs) tn (.struct vs) = .obj (("__typename", .str tn) :: rest) ∧
      ∀ kv ∈ rest, kv.1 ≠ "__typename" := by
  refine ⟨_, rfl, ?_⟩
  intro kv hkv
  have := (List.mem_filter.1 hkv).2
  simpa using this

/-- **C06_roundtrip_of_decoded_model** — the first sentence of C06 on the model, for EVERY input: whatever JSON
    value `j` the generated decoder accepts for a response type `t`, marshaling the decoded value and decoding again
    yields that value — up to `norm`, which turns a nil list handled through json.RawMessage into an empty one
    (known finding F-02) and changes nothing else.  Hypotheses on the TYPE only: no fold twins (excluded point:
    F-02t) and `TyOK` — one Go type per response key within a struct and its embedded fragments (excluded point:
    F-06k), implementations are structs whose `__typename` field is a string (what genqlient generates).  In the
    model the three known findings are therefore the only ways a decoded value can fail to come back. -/
theorem C06_roundtrip_of_decoded_model (t : Ty) (j : J) (v : Val) (hok : TyOK t) (hf : noFoldTwins t = true)
    (h : dec t j = .ok v) : dec t (enc t v) = .ok (norm t v) :=
  roundtrip_of_decoded t j v hok hf h

/-- every decoded value has the decoded shape (canonical leaves, one JSON per key, `__typename` fields equal to
    the dispatched name, non-null under pointers) — the lemma the previous theorem rests on -/
theorem C06_decoded_values_are_wellformed (t : Ty) (j : J) (v : Val) (hok : TyOK t) (h : dec t j = .ok v) : WFn t v :=
  (imT t j v hok h).1

section Witness
/-- `user { pet { name } ...A }` with `fragment A on User { pet { age } }` -/
def tPetName : Ty := .struct (.cons "name" false (.leaf .str) .nil)
def tPetAge : Ty := .struct (.cons "age" false (.leaf .int) .nil)
def tUserK : Ty := .struct (.cons "pet" false tPetName (.cons "A" true (.struct (.cons "pet" false tPetAge .nil)) .nil))
def respK : J := .obj [("pet", .obj [("name", .str "rex"), ("age", .num "3")])]

/-- **C06_roundtrip_needs_coherence_witness** (known finding F-06k, replayed on the compiled code by
    corpus/C06/f06k-…): one response key with different sub-selections in the struct and in an embedded fragment.
    Decoding fills both Go fields; marshaling writes only the struct's own (`age` is lost); decoding that again
    leaves the fragment's copy without its `age`.  So `Coherent` cannot be dropped from `C06_roundtrip_model`. -/
theorem C06_roundtrip_needs_coherence_witness :
    dec tUserK respK = .ok (.struct [.struct [.leaf (.str "rex")], .struct [.struct [.leaf (.num "3")]]]) ∧
    enc tUserK (.struct [.struct [.leaf (.str "rex")], .struct [.struct [.leaf (.num "3")]]]) = .obj [("pet", .obj [("name", .str "rex")])] ∧
    dec tUserK (.obj [("pet", .obj [("name", .str "rex")])]) = .ok (.struct [.struct [.leaf (.str "rex")], .struct [.struct [.leaf (.num "0")]]]) :=
  ⟨rfl, rfl, rfl⟩

/-- **C06_null_object_with_abstract_list_witness** (known finding F-02 seen through the round trip): a nullable
    object held by value whose struct has a list of an abstract type.  `null` leaves the struct untouched (the
    list stays nil), MarshalJSON writes `[]` for it (make(…, len(src))), decoding that gives an EMPTY list: the
    value obtained by unmarshaling does not survive the round trip.  This is why `C06_roundtrip_model` is stated
    for well-formed values (lists handled through json.RawMessage are never nil) and not for every decoded value. -/
theorem C06_null_object_with_abstract_list_witness :
    let tBox : Ty := .struct (.cons "animals" false (.slice (.iface (.cons "Dog" (.struct .nil) .nil))) .nil)
    let t : Ty := .struct (.cons "box" false tBox .nil)
    dec t (.obj [("box", .null)]) = .ok (.struct [.struct [.nilSlice]]) ∧
    enc t (.struct [.struct [.nilSlice]]) = .obj [("box", .obj [("animals", .arr [])])] ∧
    dec t (.obj [("box", .obj [("animals", .arr [])])]) = .ok (.struct [.struct [.slice []]]) :=
  ⟨rfl, rfl, rfl⟩

/-- non-vacuity of `C06_roundtrip_model`: a struct with an embedded fragment sharing a key, a list of an abstract
    type and a pointer — the decoded value is well-formed and the type has no fold twins -/
def tDog : Ty := .struct (.cons "__typename" false (.leaf .str) (.cons "barks" false (.leaf .bool) .nil))
def tCat : Ty := .struct (.cons "__typename" false (.leaf .str) (.cons "lives" false (.leaf .int) .nil))
def tEx : Ty := .struct (.cons "id" false (.leaf .str) (.cons "F" true (.struct (.cons "id" false (.leaf .str) (.cons "nick" false (.ptr (.leaf .str)) .nil)))
  (.cons "pets" false (.slice (.iface (.cons "Dog" tDog (.cons "Cat" tCat .nil)))) .nil)))
def vEx : Val := .struct [.leaf (.str "u1"), .struct [.leaf (.str "u1"), .ptr (.leaf (.str "n"))],
  .slice [.iface "Dog" (.struct [.leaf (.str "Dog"), .leaf (.bool true)]), .nilIface]]

example : noFoldTwins tEx = true := by decide
example : TyOK tEx := by
  simp [TyOK, FldsOK, ImplsOK, ImplTyOK, SameKeyTy, TypenameIsStr, closureFields, embFields, isStructTy, tEx, tDog, tCat]
example : norm tEx vEx = vEx := rfl
-- what `norm` does: the F-02 point
example : norm (.struct (.cons "xs" false (.slice (.iface .nil)) .nil)) (.struct [.nilSlice]) = .struct [.slice []] := rfl
example : dec tEx (enc tEx vEx) = .ok vEx := rfl
example : dec tEx (.obj [("id", .str "u1"), ("nick", .str "n"), ("pets", .arr [.obj [("__typename", .str "Dog"), ("barks", .bool true)], .null])]) = .ok vEx := rfl
end Witness

end Genq.Codec

namespace Genq
/-- **C06_codec_template_tie** — the templates (and FlattenedFields) extracted from /repo on this run are the ones
    the Codec model was written from: an edit of the generated (un)marshaling code breaks this equality even when no
    sampled response behaves differently. -/
theorem C06_codec_template_tie :
    Extracted.unmarshalTmpl = CodecSkel.unmarshalTmpl ∧
    Extracted.unmarshalHelperTmpl = CodecSkel.unmarshalHelperTmpl ∧
    Extracted.marshalTmpl = CodecSkel.marshalTmpl ∧
    Extracted.marshalHelperTmpl = CodecSkel.marshalHelperTmpl ∧
    Extracted.flattenedFieldsSkeleton = CodecSkel.flattenedFieldsSkeleton := ⟨rfl, rfl, rfl, rfl, rfl⟩
end Genq

/-! ### the two models of FlattenedFields agree (Proofs/FlattenAgree.lean) -/
namespace Genq.FlattenAgree
open Genq.Types (SField flattenedFields)
open Genq.Codec (Flds Val winners encAll WFFields)

/-- **C06_flatten_models_agree** — for EVERY forest of struct fields (any depth of embedding, any repetition of JSON
    names) the literal queue loop of generate/types.go FlattenedFields (pop the front, an embedded struct's fields go to
    the back, the first field seen for a JSON name wins) selects the same JSON names, in the same order, as "all
    fields ordered by embedding depth, declaration order within a depth, first name wins": breadth-first queue order
    is the stable sort by depth -/
theorem C06_flatten_models_agree (fields : List SField) :
    (flattenedFields fields).map (·.2) = (winners (entriesL 0 fields)).map (·.1) :=
  flattenedFields_eq_winners fields

/-- **C06_marshaled_keys_are_flattenedFields** — so the keys the model's MarshalJSON writes for any struct type and any
    well-formed value of it are exactly, and in the order of, what the queue loop selects for that type -/
theorem C06_marshaled_keys_are_flattenedFields (fs : Flds) (vs : List Val) (h : WFFields fs vs) :
    (winners (encAll fs vs 0)).map (·.1) = (flattenedFields (toS fs)).map (·.2) :=
  enc_keys_eq_flattenedFields fs vs h

-- non-vacuity: a key carried at depth 0 after an embedded struct that carries it at depth 1 — the shallower one wins
-- in both models, although the embedded struct is declared first
example : (flattenedFields [.embed "Frag" [.plain "Id" "id", .plain "Name" "name"], .plain "Id" "id"]).map (·.2) = ["id", "name"] ∧
    (winners (entriesL 0 [.embed "Frag" [.plain "Id" "id", .plain "Name" "name"], .plain "Id" "id"])).map (·.1) = ["id", "name"] := by
  decide

end Genq.FlattenAgree
