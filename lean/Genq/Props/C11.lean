/-
C11 — HTTP clients encode requests losslessly and refuse unsupported kinds.
Property theorems only; helper lemmas are in Genq/Proofs/HttpEscape.lean and HttpUrl.lean.
-/
import Genq.Model.Http
import Genq.Proofs.HttpUrl
import Genq.Model.ClientSkel
import Genq.Extracted.Client
namespace Genq.Http

/-- **C11_unescape_escape** — percent-encoding is lossless: for every byte string
    `url.QueryUnescape (url.QueryEscape s) = s`. -/
theorem C11_unescape_escape (s : Bytes) (hs : allBytes s = true) :
    queryUnescape (queryEscape s) = some s := unescape_escape s hs

/-- **C11_parse_inverts_encode** — url.ParseQuery inverts url.Values.Encode: any list of
    key/value byte strings (any bytes: '&', '=', ';', '%', '+', space, high bytes) is read back
    exactly, in order -/
theorem C11_parse_inverts_encode (kvs : List (Bytes × Bytes))
    (h : ∀ kv ∈ kvs, allBytes kv.1 = true ∧ allBytes kv.2 = true) :
    parseQuery (encodeValues kvs) = kvs :=
  parseQuery_encodeValues kvs (fun kv hkv => by simp [pairBytes, h kv hkv])

/-- the multimap createGetRequest ends up with, before encoding -/
def getMap (existing query opName : Bytes) (vars : Option Bytes) : MultiMap :=
  let m0 : MultiMap := (parseQuery existing).foldl (fun m kv => mmAdd m kv.1 kv.2) []
  let m1 := if query.isEmpty then m0 else mmSet m0 kQuery query
  let m2 := if opName.isEmpty then m1 else mmSet m1 kOpName opName
  match vars with
  | none => m2
  | some v => mmSet m2 kVariables v

theorem getRawQuery_eq (existing query opName : Bytes) (vars : Option Bytes)
    (hu : query.isEmpty = false ∨ opName.isEmpty = false ∨ vars.isSome = true) :
    getRawQuery existing query opName vars = encodeValues (flattenMM (sortMM (getMap existing query opName vars))) := by
  unfold getRawQuery getMap
  cases hq : query.isEmpty <;> cases ho : opName.isEmpty <;> cases vars <;> simp_all

theorem getMap_inv (existing query opName : Bytes) (vars : Option Bytes)
    (he : allBytes existing = true) (hq : allBytes query = true) (ho : allBytes opName = true)
    (hv : ∀ v, vars = some v → allBytes v = true) :
    KD (getMap existing query opName vars) ∧ MB (getMap existing query opName vars) := by
  have h0 := foldl_mmAdd [] (parseQuery existing) [] (by simp [KD])
  have b0 := MB_foldl (parseQuery existing) [] (by intro e he; cases he) (parseQuery_bytes existing he)
  unfold getMap
  simp only []
  generalize (parseQuery existing).foldl (fun m kv => mmAdd m kv.1 kv.2) [] = m0 at h0 b0
  have k0 := h0.1
  have hk1 : KD (if query.isEmpty then m0 else mmSet m0 kQuery query) ∧ MB (if query.isEmpty then m0 else mmSet m0 kQuery query) := by
    split
    · exact ⟨k0, b0⟩
    · exact ⟨KD_mmSet _ _ _ k0, MB_mmSet _ _ _ b0 (by decide) hq⟩
  generalize (if query.isEmpty then m0 else mmSet m0 kQuery query) = m1 at hk1
  have hk2 : KD (if opName.isEmpty then m1 else mmSet m1 kOpName opName) ∧ MB (if opName.isEmpty then m1 else mmSet m1 kOpName opName) := by
    split
    · exact hk1
    · exact ⟨KD_mmSet _ _ _ hk1.1, MB_mmSet _ _ _ hk1.2 (by decide) ho⟩
  generalize (if opName.isEmpty then m1 else mmSet m1 kOpName opName) = m2 at hk2
  cases vars with
  | none => exact hk2
  | some v => exact ⟨KD_mmSet _ _ _ hk2.1, MB_mmSet _ _ _ hk2.2 (by decide) (hv v rfl)⟩

/-- what url.Values.Get / [] would return for key k in the map -/
theorem getMap_lookup (existing query opName : Bytes) (vars : Option Bytes) (k : Bytes) :
    lookupMM k (getMap existing query opName vars) =
      if (kVariables == k) = true ∧ vars.isSome = true then [vars.getD []]
      else if (kOpName == k) = true ∧ opName.isEmpty = false then [opName]
      else if (kQuery == k) = true ∧ query.isEmpty = false then [query]
      else valuesOf k (parseQuery existing) := by
  have h0 := foldl_mmAdd k (parseQuery existing) [] (by simp [KD])
  unfold getMap
  simp only []
  generalize (parseQuery existing).foldl (fun m kv => mmAdd m kv.1 kv.2) [] = m0 at h0
  have l0 : lookupMM k m0 = valuesOf k (parseQuery existing) := by
    rw [h0.2]; simp [lookupMM]
  have k0 := h0.1
  -- query
  have h1 : KD (if query.isEmpty then m0 else mmSet m0 kQuery query) ∧
      lookupMM k (if query.isEmpty then m0 else mmSet m0 kQuery query) =
        if (kQuery == k) = true ∧ query.isEmpty = false then [query] else valuesOf k (parseQuery existing) := by
    cases hq : query.isEmpty
    · simp only [Bool.false_eq_true, if_false, and_true]
      refine ⟨KD_mmSet _ _ _ k0, ?_⟩
      by_cases hk : (kQuery == k) = true
      · have : kQuery = k := by simpa using hk
        rw [← this, lookup_mmSet_same _ _ _ k0]; simp
      · have hk' : (kQuery == k) = false := by simpa using hk
        rw [lookup_mmSet_other _ _ _ _ hk', l0]; simp [hk']
    · simp only [if_true, Bool.true_eq_false, and_false, if_false]
      exact ⟨k0, l0⟩
  generalize (if query.isEmpty then m0 else mmSet m0 kQuery query) = m1 at h1
  have h2 : KD (if opName.isEmpty then m1 else mmSet m1 kOpName opName) ∧
      lookupMM k (if opName.isEmpty then m1 else mmSet m1 kOpName opName) =
        if (kOpName == k) = true ∧ opName.isEmpty = false then [opName]
        else if (kQuery == k) = true ∧ query.isEmpty = false then [query] else valuesOf k (parseQuery existing) := by
    cases ho : opName.isEmpty
    · simp only [Bool.false_eq_true, if_false, and_true]
      refine ⟨KD_mmSet _ _ _ h1.1, ?_⟩
      by_cases hk : (kOpName == k) = true
      · have : kOpName = k := by simpa using hk
        rw [← this, lookup_mmSet_same _ _ _ h1.1]; simp
      · have hk' : (kOpName == k) = false := by simpa using hk
        rw [lookup_mmSet_other _ _ _ _ hk', h1.2]; simp [hk']
    · simp only [if_true, Bool.true_eq_false, and_false, if_false]
      exact h1
  generalize (if opName.isEmpty then m1 else mmSet m1 kOpName opName) = m2 at h2
  cases vars with
  | none => simp only [Option.isSome_none, Bool.false_eq_true, and_false, if_false]; exact h2.2
  | some v =>
    simp only [Option.isSome_some, and_true, Option.getD_some]
    by_cases hk : (kVariables == k) = true
    · have : kVariables = k := by simpa using hk
      rw [← this, lookup_mmSet_same _ _ _ h2.1]; simp
    · have hk' : (kVariables == k) = false := by simpa using hk
      rw [lookup_mmSet_other _ _ _ _ hk', h2.2]; simp [hk']

/-- **C11_get_url_decodes** — the GET URL is lossless: for every endpoint query string and every
    request (any bytes in the document, operation name and marshaled variables), parsing the URL
    createGetRequest builds gives back, for every key k, exactly: the request's variables under
    "variables", its operation name under "operationName", its document under "query" (each once,
    replacing whatever the endpoint had under those names), and for every other key the
    endpoint's own values, in their order.  Nothing else is added and nothing is lost. -/
theorem C11_get_url_decodes (existing query opName : Bytes) (vars : Option Bytes) (k : Bytes)
    (he : allBytes existing = true) (hq : allBytes query = true) (ho : allBytes opName = true)
    (hv : ∀ v, vars = some v → allBytes v = true)
    (hu : query.isEmpty = false ∨ opName.isEmpty = false ∨ vars.isSome = true) :
    valuesOf k (parseQuery (getRawQuery existing query opName vars)) =
      if (kVariables == k) = true ∧ vars.isSome = true then [vars.getD []]
      else if (kOpName == k) = true ∧ opName.isEmpty = false then [opName]
      else if (kQuery == k) = true ∧ query.isEmpty = false then [query]
      else valuesOf k (parseQuery existing) := by
  have hi := getMap_inv existing query opName vars he hq ho hv
  rw [getRawQuery_eq _ _ _ _ hu, parseQuery_encodeValues _ (flatten_bytes _ hi.2), valuesOf_flatten,
    lookup_sortMM _ _ hi.1, getMap_lookup]

/-- an empty request leaves the endpoint's query string untouched -/
theorem C11_get_url_untouched_when_empty (existing : Bytes) :
    getRawQuery existing [] [] none = existing := by
  simp [getRawQuery]

theorem trimLeft_spaces (ws x : List Nat) (h : ws.all isSpace = true) : trimLeft (ws ++ x) = trimLeft x := by
  induction ws with
  | nil => rfl
  | cons c cs ih =>
    simp only [List.all_cons, Bool.and_eq_true] at h
    simp only [List.cons_append, trimLeft, h.1, if_true]
    exact ih h.2

theorem hasPrefix_self (p r : List Nat) : hasPrefix p (p ++ r) = true := by
  induction p with
  | nil => rfl
  | cons c cs ih => simp [hasPrefix, ih]

/-- **C11_gate_on_emitted_documents** — for every document that starts, after any white space,
    with its operation keyword (what the generator emits: `query Name…`, `mutation Name…`,
    `subscription Name…`), whatever follows: the GET client refuses mutations and subscriptions,
    the POST client refuses subscriptions, and everything else passes the gate -/
theorem C11_gate_on_emitted_documents (ws rest : List Nat) (h : ws.all isSpace = true) :
    kindGate .get (ws ++ (kwMutation ++ rest)) = .refuseMutation ∧
    kindGate .get (ws ++ (kwSubscription ++ rest)) = .refuseSubscription ∧
    kindGate .post (ws ++ (kwSubscription ++ rest)) = .refuseSubscription ∧
    kindGate .get (ws ++ (kwQuery ++ rest)) = .pass ∧
    kindGate .post (ws ++ (kwQuery ++ rest)) = .pass ∧
    kindGate .post (ws ++ (kwMutation ++ rest)) = .pass := by
  have hm : trimLeft (kwMutation ++ rest) = kwMutation ++ rest := by simp [kwMutation, trimLeft, isSpace]
  have hs : trimLeft (kwSubscription ++ rest) = kwSubscription ++ rest := by simp [kwSubscription, trimLeft, isSpace]
  have hq : trimLeft (kwQuery ++ rest) = kwQuery ++ rest := by simp [kwQuery, trimLeft, isSpace]
  have ne : ∀ kw : List Nat, kw ≠ [] → (ws ++ (kw ++ rest)).isEmpty = false := by
    intro kw hkw; cases ws <;> cases kw <;> simp_all
  refine ⟨?_, ?_, ?_, ?_, ?_, ?_⟩
  · simp only [kindGate, ne kwMutation (by decide), Bool.false_eq_true, if_false, trimLeft_spaces _ _ h, hm, hasPrefix_self, if_true]
  · simp only [kindGate, ne kwSubscription (by decide), Bool.false_eq_true, if_false, trimLeft_spaces _ _ h, hs, hasPrefix_self, if_true]
    simp [kwMutation, kwSubscription, hasPrefix]
  · simp only [kindGate, ne kwSubscription (by decide), Bool.false_eq_true, if_false, trimLeft_spaces _ _ h, hs, hasPrefix_self, if_true]
  · simp only [kindGate, ne kwQuery (by decide), Bool.false_eq_true, if_false, trimLeft_spaces _ _ h, hq]
    simp [kwMutation, kwSubscription, kwQuery, hasPrefix]
  · simp only [kindGate, ne kwQuery (by decide), Bool.false_eq_true, if_false, trimLeft_spaces _ _ h, hq]
    simp [kwSubscription, kwQuery, hasPrefix]
  · simp only [kindGate, ne kwMutation (by decide), Bool.false_eq_true, if_false, trimLeft_spaces _ _ h, hm]
    simp [kwSubscription, kwMutation, hasPrefix]

/-- the gate is a text-prefix test, so the unrestricted statement ("never transmits a mutation")
    is false of it: a document that starts with a comment passes (finding F-11) -/
theorem C11_gate_comment_bypass_witness :
    kindGate .get ([35, 99, 10] ++ kwMutation ++ [32, 77, 123, 102, 125]) = .pass := by decide

/-- non-vacuity: a string with every class of byte (plain, space, reserved, high) -/
example : queryUnescape (queryEscape [97, 32, 38, 61, 43, 37, 255, 0]) = some [97, 32, 38, 61, 43, 37, 255, 0] := by
  decide

-- non-vacuity of C11_get_url_decodes: endpoint "?a=1&query=old", document "{a}" with '&' and '=' in the name
example : parseQuery (getRawQuery [97, 61, 49, 38, 113, 117, 101, 114, 121, 61, 111] [123, 97, 125] [38, 61] (some [123, 125]))
    = [([97], [49]), (kOpName, [38, 61]), (kQuery, [123, 97, 125]), (kVariables, [123, 125])] := by decide

end Genq.Http

namespace Genq

/-- **C11_client_skeleton_tie** — graphql/client.go's newClient / MakeRequest / createPostRequest / createGetRequest
    as they stand in /repo (regenerated on every run) have the control and effect structure the model was written
    from: the gate on the leading keyword before any request is built, json.Marshal for POST, merge into the
    endpoint's parsed query and re-encode for GET -/
theorem C11_client_skeleton_tie : Extracted.httpClientSkeleton = ClientSkel.httpClientSkeleton := rfl

end Genq
