/-
C12 — every HTTP outcome is classified correctly, keeps partial data, closes the body.
Decision logic stated outright over the model `Genq.HttpResp.makeRequest`.
-/
import Genq.Model.HttpResp
import Genq.Model.ClientSkel
import Genq.Extracted.Client
namespace Genq.HttpResp

/-- a non-200 status always yields an HTTPError carrying that status; it carries the decoded
    response when the body decodes, the raw text otherwise. -/
theorem C12_non200_is_HTTPError (s : Nat) (b : BodyFacts) (h : s ≠ 200) :
    ∃ c, (makeRequest (.resp s b)).outcome = .httpError s c ∧
      (c = .decoded b.unmarshalErrors ↔ (b.readAllFails = false ∧ b.unmarshalOk = true)) := by
  have hs : (s != 200) = true := by simpa using h
  unfold makeRequest
  simp only [hs, if_true]
  cases hr : b.readAllFails <;> cases hu : b.unmarshalOk <;> simp

/-- a 200 whose errors list is non-empty yields those errors *and* the data that arrived is decoded -/
theorem C12_200_errors (b : BodyFacts) (hd : b.decodeOk = true) (he : b.decodeErrors = true) :
    (makeRequest (.resp 200 b)).outcome = .gqlErrors ∧ (makeRequest (.resp 200 b)).dataDecoded = true := by
  simp [makeRequest, hd, he]

/-- a 200 without errors yields nil and fully decoded data -/
theorem C12_200_ok (b : BodyFacts) (hd : b.decodeOk = true) (he : b.decodeErrors = false) :
    (makeRequest (.resp 200 b)).outcome = .ok ∧ (makeRequest (.resp 200 b)).dataDecoded = true := by
  simp [makeRequest, hd, he]

/-- undecodable 200 bodies and transport failures yield some other error, never ok / HTTPError -/
theorem C12_other_error (r : DoResult)
    (h : r = .transportErr ∨ ∃ b, r = .resp 200 b ∧ b.decodeOk = false) :
    (makeRequest r).outcome = .transport ∨ (makeRequest r).outcome = .decodeError := by
  rcases h with h | ⟨b, h, hd⟩
  · subst h; simp [makeRequest]
  · subst h; simp [makeRequest, hd]

/-- outcomes are mutually exclusive and exhaustive w.r.t. the documented classification -/
theorem C12_exactly_one_outcome (r : DoResult) :
    match r with
    | .transportErr => (makeRequest r).outcome = .transport
    | .resp s b =>
      if s ≠ 200 then ∃ c, (makeRequest r).outcome = .httpError s c
      else if b.decodeOk = false then (makeRequest r).outcome = .decodeError
      else if b.decodeErrors = true then (makeRequest r).outcome = .gqlErrors
      else (makeRequest r).outcome = .ok := by
  cases r with
  | transportErr => simp [makeRequest]
  | resp s b =>
    by_cases hs : s = 200
    · subst hs
      cases hd : b.decodeOk <;> cases he : b.decodeErrors <;> simp [makeRequest, hd, he]
    · have hs' : (s != 200) = true := by simpa using hs
      simp only [hs, ne_eq, not_false_eq_true, if_true]
      unfold makeRequest
      simp only [hs', if_true]
      cases b.readAllFails <;> cases b.unmarshalOk <;> simp

/-- the response body is closed exactly once iff Do returned a response — on every path,
    read faults included -/
theorem C12_body_closed_once (r : DoResult) :
    (makeRequest r).closes = (match r with | .transportErr => 0 | .resp _ _ => 1) := by
  cases r with
  | transportErr => rfl
  | resp s b =>
    simp only [makeRequest]
    repeat' split
    all_goals rfl

/-- The full helper statement ("non-nil response struct also when no client is obtainable"). -/
def C12_helper_returns_nonnil_full : Prop :=
  ∀ g r, (helper g r).dataNonNil = true

/-- proved part: without a failing client getter the helper returns a non-nil struct, the
    error unchanged, and makes exactly one request -/
theorem C12_helper_returns_nonnil_partial (g : Option Bool) (r : DoResult) (h : g ≠ some true) :
    (helper g r).dataNonNil = true ∧ (helper g r).errUnchanged = true ∧ (helper g r).requests = 1 := by
  unfold helper
  split
  · contradiction
  · simp

/-- the full statement is false of the current template: witness = failing client getter (F-12a) -/
theorem C12_helper_nil_on_getter_failure : ¬ C12_helper_returns_nonnil_full := by
  intro h
  have := h (some true) .transportErr
  simp [helper] at this

-- non-vacuity: hypotheses are met by concrete inputs
example : (makeRequest (.resp 429 ⟨false, true, true, false, false⟩)).outcome = .httpError 429 (.decoded true) := by decide
example : (makeRequest (.resp 200 ⟨false, false, false, true, true⟩)) = ⟨.gqlErrors, 1, true⟩ := by decide
example : (makeRequest (.resp 500 ⟨true, false, false, false, false⟩)) = ⟨.httpError 500 .unreadableText, 1, false⟩ := by decide

end Genq.HttpResp

namespace Genq

/-- **C12_client_skeleton_tie** — MakeRequest as it stands in /repo: Do; on success a deferred Body.Close before
    anything is read; status gate with ReadAll and the JSON-or-text fallback; Decode into the caller's Response;
    resp.Errors returned last -/
theorem C12_client_skeleton_tie : Extracted.httpClientSkeleton = ClientSkel.httpClientSkeleton := rfl

/-- **C12_operation_template_tie** — the generated helper (operation.go.tmpl) as it stands in /repo: client getter
    early return, data_ allocated before MakeRequest and returned together with err_ -/
theorem C12_operation_template_tie : Extracted.operationTmpl = ClientSkel.operationTmpl := rfl

end Genq
