/-
C03 — the document sent to the server is the user's operation plus only __typename.
-/
import Genq.Model.Doc
import Genq.Model.ConvSkel
import Genq.Extracted.Conv
namespace Genq.Doc

section Lemmas

theorem isTypenameExact_typenameField : isTypenameExact typenameField = true := by
  simp [isTypenameExact, typenameField]

theorem isTypename_typenameField : isTypename typenameField = true := by
  simp [isTypename, typenameField]

theorem isTypename_pre (s : Sel) : isTypename (pre s) = isTypename s := by
  cases s with
  | field a n args dirs ab sub =>
    simp only [pre]
    split <;> simp [isTypename]
  | inline tc dirs sub => simp [pre, isTypename]
  | spread n dirs => simp [pre, isTypename]

theorem hasTypename_preList (l : List Sel) : hasTypename (preList l) = hasTypename l := by
  induction l with
  | nil => simp [preList]
  | cons s ss ih =>
    simp only [preList, hasTypename, List.any_cons, isTypename_pre]
    simp only [hasTypename] at ih
    rw [ih]

theorem selEq_field_same (a n : Name) (args dirs : String) (ab : Bool) (sub sub' : List Sel)
    (h : onlyTypenameAddedList sub sub' = true) :
    selEqShallow (.field a n args dirs ab sub) (.field a n args dirs ab sub') = true := by
  simp only [selEqShallow, beq_self_eq_true, Bool.true_and, h, Bool.true_or]

theorem selEq_field_added (a n : Name) (args dirs : String) (sub rest : List Sel) (t : Sel)
    (h1 : hasTypename sub = false) (h2 : isTypenameExact t = true)
    (h3 : onlyTypenameAddedList sub rest = true) :
    selEqShallow (.field a n args dirs true sub) (.field a n args dirs true (t :: rest)) = true := by
  simp only [selEqShallow, beq_self_eq_true, Bool.true_and, h1, h2, h3, Bool.not_false, Bool.or_true]

mutual
theorem adds_pre : ∀ s : Sel, selEqShallow s (pre s) = true
  | .field a n args dirs ab sub => by
    have ih := adds_preList sub
    rw [pre]
    by_cases h : (ab && !hasTypename sub) = true
    · rw [if_pos h]
      simp only [Bool.and_eq_true, Bool.not_eq_eq_eq_not, Bool.not_true] at h
      obtain ⟨h1, h2⟩ := h
      subst h1
      exact selEq_field_added _ _ _ _ _ _ _ h2 isTypenameExact_typenameField ih
    · rw [if_neg h]
      exact selEq_field_same _ _ _ _ _ _ _ ih
  | .inline tc dirs sub => by
    have ih := adds_preList sub
    rw [pre]
    simp only [selEqShallow, beq_self_eq_true, Bool.true_and, ih]
  | .spread n dirs => by
    rw [pre]
    simp only [selEqShallow, beq_self_eq_true, Bool.true_and]
theorem adds_preList : ∀ l : List Sel, onlyTypenameAddedList l (preList l) = true
  | [] => by simp only [preList, onlyTypenameAddedList]
  | s :: ss => by simp only [preList, onlyTypenameAddedList, adds_pre s, adds_preList ss, Bool.and_self]
end

mutual
theorem pre_idem : ∀ s : Sel, pre (pre s) = pre s
  | .field a n args dirs ab sub => by
    simp only [pre]
    by_cases h : (ab && !hasTypename sub) = true
    · simp only [h, if_true, pre]
      have h1 : hasTypename (typenameField :: preList sub) = true := by
        simp [hasTypename, isTypename_typenameField]
      have h2 : pre typenameField = typenameField := by simp [typenameField, pre, preList, hasTypename]
      simp [h1, preList, h2, pre_idemList sub]
    · simp only [h, Bool.false_eq_true, if_false, pre, hasTypename_preList]
      simp [h, pre_idemList sub]
  | .inline tc dirs sub => by simp [pre, pre_idemList sub]
  | .spread n dirs => by simp [pre]
theorem pre_idemList : ∀ l : List Sel, preList (preList l) = preList l
  | [] => by simp [preList]
  | s :: ss => by simp [preList, pre_idem s, pre_idemList ss]
end

mutual
theorem spreads_pre : ∀ s : Sel, spreadsOf (pre s) = spreadsOf s
  | .field a n args dirs ab sub => by
    simp only [pre]
    split
    · simp [spreadsOf, spreadsOfList, typenameField, spreads_preList sub]
    · simp [spreadsOf, spreads_preList sub]
  | .inline tc dirs sub => by simp [pre, spreadsOf, spreads_preList sub]
  | .spread n dirs => by simp [pre]
theorem spreads_preList : ∀ l : List Sel, spreadsOfList (preList l) = spreadsOfList l
  | [] => by simp [preList]
  | s :: ss => by simp [preList, spreadsOfList, spreads_pre s, spreads_preList ss]
end

theorem addNew_nodup (names acc : List Name) (h : acc.Nodup) : (addNew names acc).Nodup := by
  induction names generalizing acc with
  | nil => exact h
  | cons n ns ih =>
    simp only [addNew, List.foldl_cons]
    apply ih
    split
    · exact h
    · rename_i hc
      rw [List.nodup_append]
      refine ⟨h, by simp, ?_⟩
      intro a ha b hb
      simp only [List.mem_singleton] at hb
      subst hb
      intro hab; subst hab
      exact hc (List.contains_iff_mem.2 ha)

theorem addNew_prefix (names acc : List Name) : acc <+: addNew names acc := by
  induction names generalizing acc with
  | nil => exact List.prefix_refl _
  | cons n ns ih =>
    simp only [addNew, List.foldl_cons]
    split
    · exact ih acc
    · exact List.IsPrefix.trans (List.prefix_append _ _) (ih _)

theorem addNew_mem (names acc : List Name) (x : Name) (hx : x ∈ addNew names acc) : x ∈ acc ∨ x ∈ names := by
  induction names generalizing acc with
  | nil => exact Or.inl hx
  | cons n ns ih =>
    simp only [addNew, List.foldl_cons] at hx
    split at hx
    · rcases ih _ hx with h | h
      · exact Or.inl h
      · exact Or.inr (List.mem_cons_of_mem _ h)
    · rcases ih _ hx with h | h
      · rcases List.mem_append.1 h with h | h
        · exact Or.inl h
        · simp only [List.mem_singleton] at h; subst h; exact Or.inr (List.mem_cons_self)
      · exact Or.inr (List.mem_cons_of_mem _ h)

theorem addNew_mem_names (names acc : List Name) (x : Name) (hx : x ∈ names) : x ∈ addNew names acc := by
  induction names generalizing acc with
  | nil => cases hx
  | cons n ns ih =>
    simp only [addNew, List.foldl_cons]
    rcases List.mem_cons.1 hx with h | h
    · subst h
      split
      · rename_i hc
        exact (addNew_prefix ns acc).subset (List.contains_iff_mem.1 hc)
      · exact (addNew_prefix ns _).subset (by simp)
    · exact ih _ h

theorem usedLoop_nodup (frags : List Frag) (fuel : Nat) (found : List Name) (k : Nat) (h : found.Nodup) :
    (usedLoop frags fuel found k).Nodup := by
  induction fuel generalizing found k with
  | zero => exact h
  | succ f ih =>
    simp only [usedLoop]
    split
    · exact h
    · exact ih _ _ (addNew_nodup _ _ h)

/-- reachability through fragment spreads, starting from a selection set -/
inductive Reach (frags : List Frag) : List Sel → Name → Prop
  | direct {sel n} : n ∈ spreadsOfList sel → Reach frags sel n
  | step {sel m n} : Reach frags sel m → n ∈ spreadsOfList (fragSel frags m) → Reach frags sel n

theorem usedLoop_sound (frags : List Frag) (sel : List Sel) (fuel : Nat) (found : List Name) (k : Nat)
    (h : ∀ x ∈ found, Reach frags sel x) : ∀ x ∈ usedLoop frags fuel found k, Reach frags sel x := by
  induction fuel generalizing found k with
  | zero => exact h
  | succ f ih =>
    simp only [usedLoop]
    split
    · exact h
    · rename_i n hn
      apply ih
      intro x hx
      rcases addNew_mem _ _ _ hx with h1 | h1
      · exact h x h1
      · exact Reach.step (h n (List.mem_of_getElem? hn)) h1

/-- a duplicate-free list contained in another is no longer than it -/
theorem nodup_subset_length {α : Type} [DecidableEq α] : ∀ (l m : List α), l.Nodup → (∀ x ∈ l, x ∈ m) → l.length ≤ m.length
  | [], _, _, _ => Nat.zero_le _
  | a :: l, m, hn, hs => by
    have ha : a ∈ m := hs a (List.mem_cons_self ..)
    have hn' := List.nodup_cons.1 hn
    have hsub : ∀ x ∈ l, x ∈ m.erase a := by
      intro x hx
      have hne : x ≠ a := fun e => hn'.1 (e ▸ hx)
      exact (List.mem_erase_of_ne hne).2 (hs x (List.mem_cons_of_mem _ hx))
    have ih := nodup_subset_length l (m.erase a) hn'.2 hsub
    have hl := List.length_erase_of_mem ha
    have hpos : 0 < m.length := List.length_pos_of_mem ha
    simp only [List.length_cons]
    omega

/-- every processed queue entry has all its spreads in the list -/
def ClosedUpTo (frags : List Frag) (found : List Name) (k : Nat) : Prop :=
  ∀ j n, j < k → found[j]? = some n → ∀ m ∈ spreadsOfList (fragSel frags n), m ∈ found

theorem closed_mono (frags : List Frag) (found found' : List Name) (k : Nat) (hp : found <+: found')
    (h : ClosedUpTo frags found k) (hk : k ≤ found.length) : ClosedUpTo frags found' k := by
  intro j n hj hn m hm
  have hjl : j < found.length := Nat.lt_of_lt_of_le hj hk
  obtain ⟨t, rfl⟩ := hp
  rw [List.getElem?_append_left hjl] at hn
  exact List.mem_append_left _ (h j n hj hn m hm)

theorem usedLoop_closed (frags : List Frag) (sel : List Sel) (N : Nat)
    (hnames : ∀ m, Reach frags sel m → m ∈ frags.map (·.name)) (hN : (frags.map (·.name)).length = N) :
    ∀ (fuel : Nat) (found : List Name) (k : Nat), found.Nodup → (∀ x ∈ found, Reach frags sel x) →
      ClosedUpTo frags found k → k ≤ found.length → N + 1 ≤ fuel + k →
      ClosedUpTo frags (usedLoop frags fuel found k) (usedLoop frags fuel found k).length
  | 0, found, k, hnd, hr, hc, hk, hf => by
    -- fuel exhausted: then k > N ≥ found.length, contradiction with k ≤ found.length unless closed already
    have hlen : found.length ≤ N := by
      rw [← hN]; exact nodup_subset_length _ _ hnd (fun x hx => hnames x (hr x hx))
    simp only [usedLoop]
    intro j n hj hn; exact hc j n (by omega) hn
  | fuel + 1, found, k, hnd, hr, hc, hk, hf => by
    simp only [usedLoop]
    split
    · next hnone =>
      have hge : found.length ≤ k := by
        rcases Nat.lt_or_ge k found.length with h | h
        · rw [List.getElem?_eq_getElem h] at hnone; cases hnone
        · exact h
      intro j n hj hn; exact hc j n (by omega) hn
    · next n hn =>
      have hklt : k < found.length := (List.getElem?_eq_some_iff.1 hn).1
      have hp := addNew_prefix (spreadsOfList (fragSel frags n)) found
      apply usedLoop_closed frags sel N hnames hN fuel _ (k + 1) (addNew_nodup _ _ hnd)
      · intro x hx
        rcases addNew_mem _ _ _ hx with h1 | h1
        · exact hr x h1
        · exact Reach.step (hr n (List.mem_of_getElem? hn)) h1
      · intro j n' hj hn' m hm
        rcases Nat.lt_or_ge j k with hjk | hjk
        · exact closed_mono frags found _ k hp hc hk j n' hjk hn' m hm
        · have : j = k := by omega
          subst this
          obtain ⟨t, ht⟩ := hp
          rw [← ht, List.getElem?_append_left hklt, hn] at hn'
          cases hn'
          exact addNew_mem_names _ _ _ hm
      · obtain ⟨t, ht⟩ := hp
        rw [← ht]; simp only [List.length_append]; omega
      · omega

end Lemmas

/-- **C03_only_typename_added** — the preprocessed selection is the user's selection, node for
    node (aliases, names, arguments, directives, type conditions, spreads), with at most a
    leading `__typename` added to abstract-typed fields that lack a direct one. -/
theorem C03_only_typename_added (l : List Sel) : onlyTypenameAddedList l (preList l) = true :=
  adds_preList l

/-- **C03_preprocess_idempotent** — fragments are shared between operations and mutated in
    place; processing them again changes nothing, so the document emitted for an operation does
    not depend on which operations were processed before it. -/
theorem C03_preprocess_idempotent (l : List Sel) : preList (preList l) = preList l :=
  pre_idemList l

/-- preprocessing does not change which fragments are spread (so the closure can be computed
    before or after it, as the code does) -/
theorem C03_spreads_unchanged (l : List Sel) : spreadsOfList (preList l) = spreadsOfList l :=
  spreads_preList l

/-- **C03_every_abstract_field_has_typename** — after preprocessing every abstract-typed field
    selects `__typename` directly (consumed by C02/C19: the decoder dispatches on it). -/
theorem C03_every_abstract_field_has_typename (a n : Name) (args dirs : String) (sub : List Sel) :
    ∃ sub', pre (.field a n args dirs true sub) = .field a n args dirs true sub' ∧ hasTypename sub' = true := by
  simp only [pre]
  by_cases h : hasTypename sub = true
  · refine ⟨preList sub, by simp [h], ?_⟩
    rw [hasTypename_preList]; exact h
  · refine ⟨typenameField :: preList sub, by simp [h], ?_⟩
    simp [hasTypename, isTypename_typenameField]

/-- **C03_closure_once** — every fragment appears at most once in the emitted document -/
theorem C03_closure_once (frags : List Frag) (op : Op) : (usedFragments frags op).Nodup :=
  usedLoop_nodup _ _ _ _ (addNew_nodup _ _ List.nodup_nil)

/-- **C03_closure_sound** — only fragments the operation transitively spreads are emitted -/
theorem C03_closure_sound (frags : List Frag) (op : Op) :
    ∀ n ∈ usedFragments frags op, Reach frags op.sel n := by
  apply usedLoop_sound
  intro x hx
  rcases addNew_mem _ _ _ hx with h | h
  · cases h
  · exact Reach.direct h

/-- direct spreads are always emitted (first half of completeness; the transitive half is
    `C03_closure_complete` below) -/
theorem C03_closure_direct (frags : List Frag) (op : Op) (n : Name) (h : n ∈ spreadsOfList op.sel) :
    n ∈ usedFragments frags op := by
  unfold usedFragments
  have h1 := addNew_mem_names (spreadsOfList op.sel) [] n h
  have : ∀ (fuel : Nat) (found : List Name) (k : Nat), n ∈ found → n ∈ usedLoop frags fuel found k := by
    intro fuel
    induction fuel with
    | zero => intro found k hf; exact hf
    | succ f ih =>
      intro found k hf
      simp only [usedLoop]
      split
      · exact hf
      · exact ih _ _ ((addNew_prefix _ _).subset hf)
  exact this _ _ _ h1

/-- **C03_closure_complete** — every fragment the operation reaches through spreads, at any
    depth, is emitted (given that spreads name defined fragments, as validation guarantees): the
    queue loop's fuel (number of fragments + 1) always suffices.  With C03_closure_sound and
    C03_closure_once: the emitted fragments are exactly the reachable ones, each once. -/
theorem C03_closure_complete (frags : List Frag) (op : Op) (n : Name)
    (hdef : ∀ m, Reach frags op.sel m → m ∈ frags.map (·.name))
    (hr : Reach frags op.sel n) : n ∈ usedFragments frags op := by
  have hclosed := usedLoop_closed frags op.sel (frags.map (·.name)).length hdef rfl (frags.length + 1)
    (addNew (spreadsOfList op.sel) []) 0 (addNew_nodup _ _ List.nodup_nil)
    (by intro x hx
        rcases addNew_mem _ _ _ hx with h | h
        · cases h
        · exact Reach.direct h)
    (by intro j n hj; cases hj) (Nat.zero_le _) (by simp)
  induction hr with
  | direct h => exact C03_closure_direct frags op _ h
  | step _ hm ih =>
    have hin := ih
    unfold usedFragments at hin ⊢
    obtain ⟨j, hj, hget⟩ := List.getElem_of_mem hin
    exact hclosed j _ hj (by rw [List.getElem?_eq_getElem hj, hget]) _ hm

namespace Genq

/-- **C03_document_tie** — usedFragments, preprocessQueryDocument, addOperation, as in /repo now (regenerated on every run), equal to the copy the model was written from -/
theorem C03_document_tie : Extracted.documentSkeleton = ConvSkel.documentSkeleton := rfl

end Genq
