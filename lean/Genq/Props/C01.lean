/-
C01 — every supported input is accepted and its output compiles.
What is proved here are the three pieces of decision logic the property rests on (acceptance of a
place visited twice, import aliases, the templates' view of a wrapped type); that whole programs
are accepted and their output type-checks is decided per run on generated programs (compile leg).
-/
import Genq.Model.TypeMap
import Genq.Model.Imports
import Genq.Model.Conv
import Genq.Props.C09
import Genq.Model.ConvSkel
import Genq.Extracted.Conv

namespace Genq.TypeMap

/-- **C01_second_visit_accepted** — a place converted a second time (a field below an abstract
    type is converted once per implementation) is recognised: after the first visit declared the
    type, any later lookup or insertion for the same GraphQL type and selection reuses it and is
    never reported as a conflict — whatever happened in between (checked accesses only) -/
theorem C01_second_visit_accepted (m m' : TMap) (n : String) (d : Need) (between : List Req)
    (h1 : (step m (.add n d)).2.resolved = true)
    (hw : WritesFresh (step m (.add n d)).1 between)
    (hr : run (step m (.add n d)).1 between = some m') :
    (step m' (.get n d)).2 = .reuse ∧ (step m' (.add n d)).2 = .reuse := by
  have hl := step_resolved_lookup m (.add n d) trivial h1
  simp only [Req.name, Req.need] at hl
  have hk := run_keeps between _ m' n d hw hr hl
  have := (C09_reuse_only_same_need m' n d).1.2 hk
  simp [step, this]

end Genq.TypeMap

namespace Genq.Imports

theorem firstFree_not_used (used : List Str) (base : Str) : ∀ (fuel k : Nat) (a : Str),
    firstFree used base fuel k = some a → used.contains a = false
  | 0, _, _, h => by simp [firstFree] at h
  | fuel + 1, k, a, h => by
    simp only [firstFree] at h
    generalize (if k < 2 then base else base ++ (toString k).toList) = cand at h
    generalize (if k < 2 then 2 else k + 1) = k' at h
    by_cases hc : used.contains cand = true
    · rw [if_pos hc] at h; exact firstFree_not_used used base fuel k' a h
    · rw [if_neg hc] at h
      simp only [Option.some.injEq] at h
      subst h
      simpa using hc

theorem aliasOf_none (s : St) (path : Str) (h : s.aliasOf path = none) : path ∉ s.imports.map (·.1) := by
  simp only [St.aliasOf, Option.map_eq_none_iff, List.find?_eq_none] at h
  intro hm
  simp only [List.mem_map] at hm
  obtain ⟨p, hp, he⟩ := hm
  have := h p hp
  simp [he] at this

theorem addImportFor_inv (s s' : St) (path a : Str) (hi : Inv s) (hn : s.aliasOf path = none)
    (h : addImportFor s path = some (s', a)) : Inv s' ∧ a ∉ s.used := by
  unfold addImportFor at h
  simp only [] at h
  split at h
  · cases h
  · next a' hf =>
    simp only [Option.some.injEq, Prod.mk.injEq] at h
    obtain ⟨hs, ha⟩ := h
    subst ha
    have hnu : a' ∉ s.used := by
      have := firstFree_not_used _ _ _ _ _ hf
      simpa using this
    refine ⟨?_, hnu⟩
    subst hs
    obtain ⟨h1, h2, h3⟩ := hi
    refine ⟨?_, ?_, ?_⟩
    · simp only [List.map_cons, List.nodup_cons]
      refine ⟨?_, h1⟩
      intro hm
      simp only [List.mem_map] at hm
      obtain ⟨p, hp, he⟩ := hm
      exact hnu (he ▸ h2 p hp)
    · intro p hp
      simp only [List.mem_cons] at hp ⊢
      rcases hp with rfl | hp
      · exact Or.inl rfl
      · exact Or.inr (h2 p hp)
    · simp only [List.map_cons, List.nodup_cons]
      exact ⟨aliasOf_none s path hn, h3⟩

theorem ref_inv (own : Str) (s : St) (name : Str) (hi : Inv s) : Inv (ref own s name).1 := by
  unfold ref
  split
  · exact hi
  · simp only []
    split
    · split <;> exact hi
    · split
      · exact hi
      · split
        · exact hi
        · next hn =>
          split
          · exact hi
          · next s' a ha => exact (addImportFor_inv s s' _ a hi hn ha).1

theorem refs_inv (own : Str) : ∀ (names : List Str) (s : St), Inv s → Inv (refs own s names).1
  | [], _, hi => hi
  | n :: ns, s, hi => by
    simp only [refs]
    exact refs_inv own ns _ (ref_inv own s n hi)

theorem nodup_map_inj {α β : Type} (f : α → β) : ∀ (l : List α), (l.map f).Nodup →
    ∀ x ∈ l, ∀ y ∈ l, f x = f y → x = y
  | [], _, x, hx, _, _, _ => by cases hx
  | a :: l, h, x, hx, y, hy, he => by
    simp only [List.map_cons, List.nodup_cons, List.mem_map, not_exists, not_and] at h
    simp only [List.mem_cons] at hx hy
    rcases hx with rfl | hx <;> rcases hy with rfl | hy
    · rfl
    · exact absurd he.symm (h.1 y hy)
    · exact absurd he (h.1 x hx)
    · exact nodup_map_inj f l h.2 x hx y hy he

/-- **C01_import_aliases_distinct** — whatever sequence of Go type names the generator resolves,
    no two imported packages ever share an alias and no package is imported twice, so the
    import clause never redeclares a name -/
theorem C01_import_aliases_distinct (own : Str) (names : List Str) :
    let s := (refs own St.empty names).1
    (∀ p ∈ s.imports, ∀ q ∈ s.imports, p.2 = q.2 → p = q) ∧
    (∀ p ∈ s.imports, ∀ q ∈ s.imports, p.1 = q.1 → p = q) := by
  have hi : Inv (refs own St.empty names).1 := refs_inv own names St.empty (by simp [Inv, St.empty])
  exact ⟨nodup_map_inj _ _ hi.1, nodup_map_inj _ _ hi.2.2⟩

/-- **C01_reference_uses_declared_alias** — a reference to a type of an already imported package
    is spelled with exactly the alias under which that package is imported, and resolving it
    changes nothing -/
theorem C01_reference_uses_declared_alias (own : Str) (s : St) (name pre rest pkg loc a : Str)
    (hsp : ' ' ∉ name)
    (hp : splitPrefix (name.length + 1) name = (pre, rest))
    (hd : splitLastDot rest = some (pkg, loc)) (ho : (pkg == own) = false)
    (ha : s.aliasOf pkg = some a) :
    ref own s name = (s, .ok (pre ++ a ++ '.' :: loc)) := by
  unfold ref
  simp [hsp, hp, hd, ho, ha]

theorem addImportFor_keeps_alias (s s' : St) (p pkg a a' : Str) (ha : s.aliasOf pkg = some a)
    (hn : s.aliasOf p = none) (hadd : addImportFor s p = some (s', a')) : s'.aliasOf pkg = some a := by
  unfold addImportFor at hadd
  simp only [] at hadd
  split at hadd
  · cases hadd
  · simp only [Option.some.injEq, Prod.mk.injEq] at hadd
    obtain ⟨hs, _⟩ := hadd
    subst hs
    have hne : (p == pkg) = false := by
      by_cases he : p = pkg
      · subst he; rw [ha] at hn; cases hn
      · simpa using he
    simp only [St.aliasOf, List.find?, hne] at ha ⊢
    exact ha

/-- an alias, once given, is kept: later references never re-import or rename a package -/
theorem C01_alias_stable (own : Str) (s : St) (name pkg a : Str)
    (ha : s.aliasOf pkg = some a) : (ref own s name).1.aliasOf pkg = some a := by
  unfold ref
  repeat' split
  all_goals first
    | exact ha
    | exact addImportFor_keeps_alias _ _ _ _ _ _ ha ‹_› ‹_›

-- non-vacuity / sanity: two packages with the same base name get aliases sup and sup2
example : ((refs "me".toList St.empty ["a/sup.T".toList, "[]*b/sup.U".toList, "a/sup.V".toList, "me.W".toList, "string".toList]).2)
    = [.ok "sup.T".toList, .ok "[]*sup2.U".toList, .ok "sup.V".toList, .ok "W".toList, .ok "string".toList] := by decide

end Genq.Imports

namespace Genq.Conv

/-- the shapes convertType produces: slices, then at most one pointer or generic wrapper, then the
    named type -/
def GT.leaf : GT → Bool
  | .base | .opaque _ => true
  | _ => false

def GT.produced : GT → Bool
  | .slice e => e.produced
  | .ptr e => e.leaf
  | .generic e => e.leaf
  | t => t.leaf

def GT.hasGeneric : GT → Bool
  | .slice e => e.hasGeneric
  | .ptr e => e.hasGeneric
  | .generic _ => true
  | _ => false

/-- **C01_template_view_complete** — the (un)marshal templates describe a field's type by
    SliceDepth, IsPointer and Unwrap alone; for every type convertType produces without the
    generic-optional wrapper those three items determine the type exactly, so the code the
    templates print has the field's own type -/
theorem C01_template_view_complete : ∀ (t : GT), t.produced = true → t.hasGeneric = false →
    rebuild t.sliceDepth t.isPointer t.unwrap = t
  | .base, _, _ => by simp [rebuild, GT.sliceDepth, GT.isPointer, GT.afterSlices, GT.unwrap]
  | .opaque _, _, _ => by simp [rebuild, GT.sliceDepth, GT.isPointer, GT.afterSlices, GT.unwrap]
  | .ptr e, hp, _ => by
    cases e <;> simp_all [rebuild, GT.sliceDepth, GT.isPointer, GT.afterSlices, GT.unwrap, GT.produced, GT.leaf]
  | .generic e, _, hg => by simp [GT.hasGeneric] at hg
  | .slice e, hp, hg => by
    have ih := C01_template_view_complete e (by simpa [GT.produced] using hp) (by simpa [GT.hasGeneric] using hg)
    simp only [GT.sliceDepth, rebuild, GT.unwrap, GT.slice.injEq]
    have : (GT.slice e).isPointer = e.isPointer := by simp [GT.isPointer, GT.afterSlices]
    rw [this]; exact ih

/-- **C01_tie_template_views** (regenerated from /repo on every run) — the only things the
    (un)marshal templates ask of a field's Go type are these -/
theorem C01_tie_template_views :
    Extracted.templateTypeViews = ["IsPointer", "Reference", "SliceDepth", "Unwrap"] ∧
    Extracted.importTableWrites = [("addImportFor", "write")] := by decide

/-- with the generic-optional wrapper the three items lose the wrapper: the templates then print
    code for a different type than the field has (finding F-01: does not compile) -/
theorem C01_generic_breaks_view :
    rebuild (GT.generic .base).sliceDepth (GT.generic .base).isPointer (GT.generic .base).unwrap ≠ GT.generic .base := by
  decide

end Genq.Conv

namespace Genq

/-- **C01_imports_tie** — addImportFor / ref, as in /repo now (regenerated on every run), equal to the copy the model was written from -/
theorem C01_imports_tie : Extracted.importsSkeleton = ConvSkel.importsSkeleton := rfl

end Genq
