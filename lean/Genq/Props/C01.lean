namespace Genq.C01
theorem C01_placeholder : True := trivial
end Genq.C01
