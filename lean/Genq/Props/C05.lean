/-
C05 — operations that do not validate against the schema are always rejected.
The GraphQL validator is gqlparser (third party); its guarantee is the hypothesis
`ValidatorSound`.  What is proved is genqlient's part: every definition of every matched file
and of every selected string literal is in the document handed to the validator, so an invalid
one anywhere makes the run fail.
-/
import Genq.Model.Files
import Genq.Model.ConvSkel
import Genq.Extracted.Conv
namespace Genq.Files

/-- hypothesis on the third-party validator: it accepts a document only if every definition
    in it is valid (w.r.t. the schema, for the rule classes of C05) -/
def ValidatorSound {D} (validate : List D → Bool) (Valid : D → Prop) : Prop :=
  ∀ doc, validate doc = true → ∀ d ∈ doc, Valid d

/-- **C05_all_reach_validator** — no file, literal or definition is dropped: every definition
    of a matched .graphql file and of a selected literal of a matched .go file is in the merged
    document, whatever the enumeration order of the files. -/
theorem C05_all_reach_validator {D} (files : List (File D)) (f : File D) (hf : f ∈ files) :
    (f.kind = .graphql → ∀ d ∈ f.defs, d ∈ merged files) ∧
    (f.kind = .go → ∀ l ∈ f.lits, selected l.value = true → ∀ d ∈ l.defs, d ∈ merged files) := by
  constructor
  · intro hk d hd
    simp only [merged, List.mem_flatMap]
    exact ⟨f, hf, by simp [defsOfFile, hk, hd]⟩
  · intro hk l hl hs d hd
    simp only [merged, List.mem_flatMap]
    refine ⟨f, hf, ?_⟩
    simp only [defsOfFile, hk, List.mem_flatMap, List.mem_filter]
    exact ⟨l, ⟨hl, hs⟩, hd⟩

/-- **C05_reject** — with a sound validator, an invalid definition anywhere (any matched file,
    any selected literal) makes the run fail: a successful run certifies every definition. -/
theorem C05_reject {D} (validate : List D → Bool) (Valid : D → Prop) (hv : ValidatorSound validate Valid)
    (files : List (File D)) (h : accept validate files = true) :
    ∀ f ∈ files, (f.kind = .graphql → ∀ d ∈ f.defs, Valid d) ∧
      (f.kind = .go → ∀ l ∈ f.lits, selected l.value = true → ∀ d ∈ l.defs, Valid d) := by
  intro f hf
  simp only [accept, Bool.and_eq_true] at h
  have hall := hv _ h.2
  obtain ⟨h1, h2⟩ := C05_all_reach_validator files f hf
  exact ⟨fun hk d hd => hall d (h1 hk d hd), fun hk l hl hs d hd => hall d (h2 hk l hl hs d hd)⟩

/-- a file of an unknown type makes the run fail (it is never silently skipped) -/
theorem C05_unknown_file_type_rejected {D} (validate : List D → Bool) (files : List (File D)) (f : File D)
    (hf : f ∈ files) (hk : f.kind = .other) : accept validate files = false := by
  simp only [accept, Bool.and_eq_false_iff, Bool.not_eq_false']
  left
  exact List.any_eq_true.2 ⟨f, hf, by simp [hk]⟩

/-- the literal-selection predicate accepts what the documentation describes: a literal whose
    text, after white space, starts with `# @genqlient` -/
theorem C05_selected_marker (ws rest : Str) (hws : ∀ c ∈ ws, isSpaceC c = true) :
    selected (ws ++ marker ++ rest) = true := by
  have hp : ∀ (p r : Str), hasPrefix p (p ++ r) = true := by
    intro p r
    induction p with
    | nil => cases r <;> rfl
    | cons c cs ih => simp [hasPrefix, ih]
  induction ws with
  | nil =>
    have : trimLeft (marker ++ rest) = marker ++ rest := by
      simp only [marker, List.cons_append, trimLeft]
      rfl
    simp only [selected, List.nil_append, this]
    exact hp marker rest
  | cons c cs ih =>
    have hc := hws c (List.mem_cons_self)
    simp only [selected, List.cons_append, trimLeft, hc, if_true]
    exact ih (fun x hx => hws x (List.mem_cons_of_mem _ hx))

theorem hasPrefix_iff (p s : Str) : hasPrefix p s = true ↔ ∃ r, s = p ++ r := by
  induction p generalizing s with
  | nil => cases s <;> simp [hasPrefix]
  | cons c cs ih =>
    cases s with
    | nil => simp [hasPrefix]
    | cons d ds =>
      simp only [hasPrefix, Bool.and_eq_true, beq_iff_eq, ih, List.cons_append, List.cons.injEq]
      constructor
      · rintro ⟨rfl, r, rfl⟩; exact ⟨r, rfl, rfl⟩
      · rintro ⟨r, rfl, rfl⟩; exact ⟨rfl, r, rfl⟩

theorem trimLeft_split (v : Str) : ∃ ws, (∀ c ∈ ws, isSpaceC c = true) ∧ v = ws ++ trimLeft v := by
  induction v with
  | nil => exact ⟨[], by simp, rfl⟩
  | cons c cs ih =>
    by_cases hc : isSpaceC c = true
    · obtain ⟨ws, h1, h2⟩ := ih
      refine ⟨c :: ws, ?_, ?_⟩
      · intro x hx
        rcases List.mem_cons.1 hx with rfl | hx
        · exact hc
        · exact h1 x hx
      · simp only [trimLeft, hc, if_true, List.cons_append]; rw [← h2]
    · exact ⟨[], by simp, by simp [trimLeft, hc]⟩

/-- **C05_selected_iff** — the literal-selection predicate is EXACTLY "white space, then `# @genqlient`": a Go
    string literal is handed to the parser (and so to the validator) iff its text has that shape; no other
    literal is ever silently taken for an operation and none of that shape is skipped. -/
theorem C05_selected_iff (v : Str) :
    selected v = true ↔ ∃ ws rest, (∀ c ∈ ws, isSpaceC c = true) ∧ v = ws ++ marker ++ rest := by
  constructor
  · intro h
    obtain ⟨ws, h1, h2⟩ := trimLeft_split v
    obtain ⟨r, hr⟩ := (hasPrefix_iff marker (trimLeft v)).1 h
    exact ⟨ws, r, h1, by rw [List.append_assoc, ← hr]; exact h2⟩
  · rintro ⟨ws, rest, h1, rfl⟩
    exact C05_selected_marker ws rest h1

-- non-vacuity
example : merged [({ name := ['a'], kind := .graphql, defs := [1, 2], lits := [] } : File Nat),
    { name := ['b'], kind := .go, defs := [], lits := [⟨"\n  # @genqlient\nquery".toList, [3]⟩, ⟨"plain".toList, [9]⟩] }] = [1, 2, 3] := by
  decide

end Genq.Files

namespace Genq

/-- **C05_parse_tie** — getAndValidateQueries / getQueries / getQueriesFromString / getQueriesFromGo, as in /repo now (regenerated on every run), equal to the copy the model was written from -/
theorem C05_parse_tie : Extracted.parseSkeleton = ConvSkel.parseSkeleton := rfl

end Genq
