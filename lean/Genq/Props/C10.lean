/-
C10 — options shape Go types exactly as documented, with documented precedence.
-/
import Genq.Model.Conv
import Genq.Model.ConvSkel
import Genq.Extracted.Conv
namespace Genq.Conv

/-- first value that is set -/
def firstSome (l : List (Option Bool)) : Option Bool := l.findSome? id
def firstNonEmpty (l : List String) : String := (l.find? (· != "")).getD ""

section Lemmas
theorem fillBool_eq (t : Option Bool) (ds : List (Option Bool)) : fillBool t ds = firstSome (t :: ds) := by
  cases t <;> simp [fillBool, firstSome, List.findSome?]
theorem fillString_eq (t : String) (ds : List String) : fillString t ds = firstNonEmpty (t :: ds) := by
  unfold fillString firstNonEmpty
  by_cases h : (t != "") = true
  · simp [h, List.find?]
  · simp [h, List.find?]
end Lemmas

/-- **C10_precedence** — option by option, the value in force is the first that is set among:
    the node's own directive, the `for:` entry of the enclosing operation or fragment, the
    operation- or fragment-level directive (genqlient.yaml enters later, in convertType).
    `struct`/`flatten` cannot be set through `for:`; `typename` does not come from the
    operation-level directive. -/
theorem C10_precedence (node forField op : Dir) :
    (merge node forField op).pointer = firstSome [node.pointer, forField.pointer, op.pointer] ∧
    (merge node forField op).omitempty = firstSome [node.omitempty, forField.omitempty, op.omitempty] ∧
    (merge node forField op).struct = firstSome [node.struct, op.struct] ∧
    (merge node forField op).flatten = firstSome [node.flatten, op.flatten] ∧
    (merge node forField op).bind = firstNonEmpty [node.bind, forField.bind, op.bind] ∧
    (merge node forField op).typename = firstNonEmpty [node.typename, forField.typename] ∧
    (merge node forField op).alias = firstNonEmpty [node.alias, forField.alias, op.alias] := by
  simp only [merge, fillBool_eq, fillString_eq, and_self]

/-- **C10_no_leak** — the options in force at a node are a function of the node's own
    directive, of the `for:` entry for (its parent type, its FIELD NAME) and of the enclosing
    operation/fragment directive only: an entry for another type or field, and the node's
    response alias, never matter. -/
theorem C10_no_leak (node op : Dir) (t : ForTable) (parentType fieldName alias alias' : String) (extra : Dir)
    (otherType otherField : String) (hne : (otherType, otherField) ≠ (parentType, fieldName)) :
    merge node (forLookup t parentType fieldName alias) op = merge node (forLookup t parentType fieldName alias') op ∧
    merge node (forLookup (((otherType, otherField), extra) :: t) parentType fieldName alias) op =
      merge node (forLookup t parentType fieldName alias) op := by
  refine ⟨rfl, ?_⟩
  have : ((parentType, fieldName) == (otherType, otherField)) = false := by
    simp only [beq_eq_false_iff_ne, ne_eq]
    exact fun h => hne h.symm
  simp [forLookup, List.lookup, this]

/-- **C10_bind_replaces_whole_type** — `bind: T` (T ≠ "-") gives exactly T for the whole field
    type, lists included, whatever else is configured -/
theorem C10_bind_replaces_whole_type (cfg : Cfg) (k : Kind) (o : Dir) (t : TRef)
    (h1 : o.bind ≠ "") (h2 : o.bind ≠ "-") : convertType cfg k o t = .opaque o.bind := by
  cases t <;> simp [convertType, h1, h2]

/-- **C10_lists_are_slices** — a list type is a slice of what its element type converts to; the
    slice itself is never wrapped in a pointer or an optional ("`[String]` ↦ `[]*string`, not
    `*[]*string`") -/
theorem C10_lists_are_slices (cfg : Cfg) (k : Kind) (o : Dir) (e : TRef) (nn : Bool)
    (h : o.bind = "" ∨ o.bind = "-") :
    convertType cfg k o (.list e nn) = .slice (convertType cfg k o e) := by
  rcases h with h | h <;> simp [convertType, h]

/-- **C10_named_type_wrapper** — for a named type without binding the wrapper is the documented
    function of (struct references, pointer option, nullability, `optional`) -/
theorem C10_named_type_wrapper (cfg : Cfg) (k : Kind) (o : Dir) (n : String) (nn : Bool)
    (hb : o.bind = "" ∨ o.bind = "-") :
    convertType cfg k o (.named n nn) =
      if isStructRef cfg k then (if o.pointer = some false then .base else .ptr .base)
      else if o.pointer = some true then .ptr .base
      else if o.pointer = some false then (if !nn && cfg.optional == .generic then .generic .base else .base)
      else if nn then .base
      else match cfg.optional with
        | .value => .base
        | .pointer => .ptr .base
        | .generic => .generic .base := by
  have hb' : (o.bind != "" && o.bind != "-") = false := by
    rcases hb with h | h <;> simp [h]
  simp only [convertType, hb', Bool.false_eq_true, if_false]
  rcases o with ⟨p, _, _, _, _, _, _⟩
  cases h1 : isStructRef cfg k <;> cases p with
  | none => cases nn <;> cases h2 : cfg.optional <;> simp [h1, h2]
  | some b => cases b <;> cases nn <;> cases h2 : cfg.optional <;> simp [h1, h2]

/-- `pointer: false` never yields a pointer -/
theorem C10_pointer_false_never_pointer (cfg : Cfg) (k : Kind) (o : Dir) (n : String) (nn : Bool)
    (hp : o.pointer = some false) : convertType cfg k o (.named n nn) ≠ .ptr .base := by
  simp only [convertType, hp]
  repeat' split
  all_goals simp_all

/-- **C10_struct_references_default** — with use_struct_references, object and input-object
    typed fields are pointers with omitempty unless the options say otherwise -/
theorem C10_struct_references_default (cfg : Cfg) (k : Kind) (o : Dir) (n : String) (nn : Bool)
    (hs : isStructRef cfg k = true) (hb : o.bind = "") (hp : o.pointer = none) (ho : o.omitempty = none) :
    convertType cfg k o (.named n nn) = .ptr .base ∧ omitemptyAfter cfg k o (.named n nn) = true := by
  simp [convertType, omitemptyAfter, hs, hb, hp, ho]

-- non-vacuity / documented examples
example : convertType ⟨.pointer, false⟩ .scalar {} (.list (.named "String" false) false) = .slice (.ptr .base) := by decide
example : convertType ⟨.generic, false⟩ .scalar {} (.named "String" false) = .generic .base := by decide
example : (merge { pointer := some false } { pointer := some true } { pointer := some true, omitempty := some true }).pointer = some false := by decide

end Genq.Conv

namespace Genq

/-- **C10_convertType_tie** — convertType: bind, list, named type, struct-reference / pointer / generic wrappers, as in /repo now (regenerated on every run), equal to the copy the model was written from -/
theorem C10_convertType_tie : Extracted.convertTypeSkeleton = ConvSkel.convertTypeSkeleton := rfl

/-- **C10_directive_merge_tie** — mergeOperationDirective: node > for > operation, option by option, as in /repo now (regenerated on every run), equal to the copy the model was written from -/
theorem C10_directive_merge_tie : Extracted.directiveMergeSkeleton = ConvSkel.directiveMergeSkeleton := rfl

end Genq
