/-
C10 — options shape Go types exactly as documented, with documented precedence.
-/
import Genq.Model.Conv
import Genq.Model.ConvSkel
import Genq.Extracted.Conv
import Genq.Model.DirApply
namespace Genq.Conv

/-- first value that is set -/
def firstSome (l : List (Option Bool)) : Option Bool := l.findSome? id
def firstNonEmpty (l : List String) : String := (l.find? (· != "")).getD ""

section Lemmas
theorem fillBool_eq (t : Option Bool) (ds : List (Option Bool)) : fillBool t ds = firstSome (t :: ds) := by
  cases t <;> simp [fillBool, firstSome, List.findSome?]
theorem fillString_eq (t : String) (ds : List String) : fillString t ds = firstNonEmpty (t :: ds) := by
  unfold fillString firstNonEmpty
  by_cases h : (t != "") = true
  · simp [h, List.find?]
  · simp [h, List.find?]
end Lemmas

/-- **C10_precedence** — option by option, the value in force is the first that is set among:
    the node's own directive, the `for:` entry of the enclosing operation or fragment, the
    operation- or fragment-level directive (genqlient.yaml enters later, in convertType).
    `struct`/`flatten` cannot be set through `for:`; `typename` does not come from the
    operation-level directive. -/
theorem C10_precedence (node forField op : Dir) :
    (merge node forField op).pointer = firstSome [node.pointer, forField.pointer, op.pointer] ∧
    (merge node forField op).omitempty = firstSome [node.omitempty, forField.omitempty, op.omitempty] ∧
    (merge node forField op).struct = firstSome [node.struct, op.struct] ∧
    (merge node forField op).flatten = firstSome [node.flatten, op.flatten] ∧
    (merge node forField op).bind = firstNonEmpty [node.bind, forField.bind, op.bind] ∧
    (merge node forField op).typename = firstNonEmpty [node.typename, forField.typename] ∧
    (merge node forField op).alias = firstNonEmpty [node.alias, forField.alias, op.alias] := by
  simp only [merge, fillBool_eq, fillString_eq, and_self]

/-- **C10_no_leak** — the options in force at a node are a function of the node's own
    directive, of the `for:` entry for (its parent type, its FIELD NAME) and of the enclosing
    operation/fragment directive only: an entry for another type or field, and the node's
    response alias, never matter. -/
theorem C10_no_leak (node op : Dir) (t : ForTable) (parentType fieldName alias alias' : String) (extra : Dir)
    (otherType otherField : String) (hne : (otherType, otherField) ≠ (parentType, fieldName)) :
    merge node (forLookup t parentType fieldName alias) op = merge node (forLookup t parentType fieldName alias') op ∧
    merge node (forLookup (((otherType, otherField), extra) :: t) parentType fieldName alias) op =
      merge node (forLookup t parentType fieldName alias) op := by
  refine ⟨rfl, ?_⟩
  have : ((parentType, fieldName) == (otherType, otherField)) = false := by
    simp only [beq_eq_false_iff_ne, ne_eq]
    exact fun h => hne h.symm
  simp [forLookup, List.lookup, this]

/-- **C10_bind_replaces_whole_type** — `bind: T` (T ≠ "-") gives exactly T for the whole field
    type, lists included, whatever else is configured -/
theorem C10_bind_replaces_whole_type (cfg : Cfg) (k : Kind) (o : Dir) (t : TRef)
    (h1 : o.bind ≠ "") (h2 : o.bind ≠ "-") : convertType cfg k o t = .opaque o.bind := by
  cases t <;> simp [convertType, h1, h2]

/-- **C10_lists_are_slices** — a list type is a slice of what its element type converts to; the
    slice itself is never wrapped in a pointer or an optional ("`[String]` ↦ `[]*string`, not
    `*[]*string`") -/
theorem C10_lists_are_slices (cfg : Cfg) (k : Kind) (o : Dir) (e : TRef) (nn : Bool)
    (h : o.bind = "" ∨ o.bind = "-") :
    convertType cfg k o (.list e nn) = .slice (convertType cfg k o e) := by
  rcases h with h | h <;> simp [convertType, h]

/-- **C10_named_type_wrapper** — for a named type without binding the wrapper is the documented
    function of (struct references, pointer option, nullability, `optional`) -/
theorem C10_named_type_wrapper (cfg : Cfg) (k : Kind) (o : Dir) (n : String) (nn : Bool)
    (hb : o.bind = "" ∨ o.bind = "-") :
    convertType cfg k o (.named n nn) =
      if isStructRef cfg k then (if o.pointer = some false then .base else .ptr .base)
      else if o.pointer = some true then .ptr .base
      else if o.pointer = some false then (if !nn && cfg.optional == .generic then .generic .base else .base)
      else if nn then .base
      else match cfg.optional with
        | .value => .base
        | .pointer => .ptr .base
        | .generic => .generic .base := by
  have hb' : (o.bind != "" && o.bind != "-") = false := by
    rcases hb with h | h <;> simp [h]
  simp only [convertType, hb', Bool.false_eq_true, if_false]
  rcases o with ⟨p, _, _, _, _, _, _⟩
  cases h1 : isStructRef cfg k <;> cases p with
  | none => cases nn <;> cases h2 : cfg.optional <;> simp [h1, h2]
  | some b => cases b <;> cases nn <;> cases h2 : cfg.optional <;> simp [h1, h2]

/-- `pointer: false` never yields a pointer -/
theorem C10_pointer_false_never_pointer (cfg : Cfg) (k : Kind) (o : Dir) (n : String) (nn : Bool)
    (hp : o.pointer = some false) : convertType cfg k o (.named n nn) ≠ .ptr .base := by
  simp only [convertType, hp]
  repeat' split
  all_goals simp_all

/-- **C10_struct_references_default** — with use_struct_references, object and input-object
    typed fields are pointers with omitempty unless the options say otherwise -/
theorem C10_struct_references_default (cfg : Cfg) (k : Kind) (o : Dir) (n : String) (nn : Bool)
    (hs : isStructRef cfg k = true) (hb : o.bind = "") (hp : o.pointer = none) (ho : o.omitempty = none) :
    convertType cfg k o (.named n nn) = .ptr .base ∧ omitemptyAfter cfg k o (.named n nn) = true := by
  simp [convertType, omitemptyAfter, hs, hb, hp, ho]

-- non-vacuity / documented examples
example : convertType ⟨.pointer, false⟩ .scalar {} (.list (.named "String" false) false) = .slice (.ptr .base) := by decide
example : convertType ⟨.generic, false⟩ .scalar {} (.named "String" false) = .generic .base := by decide
example : (merge { pointer := some false } { pointer := some true } { pointer := some true, omitempty := some true }).pointer = some false := by decide

end Genq.Conv

namespace Genq

/-- **C10_convertType_tie** — convertType: bind, list, named type, struct-reference / pointer / generic wrappers, as in /repo now (regenerated on every run), equal to the copy the model was written from -/
theorem C10_convertType_tie : Extracted.convertTypeSkeleton = ConvSkel.convertTypeSkeleton := rfl

/-- **C10_directive_merge_tie** — mergeOperationDirective: node > for > operation, option by option, as in /repo now (regenerated on every run), equal to the copy the model was written from -/
theorem C10_directive_merge_tie : Extracted.directiveMergeSkeleton = ConvSkel.directiveMergeSkeleton := rfl

end Genq

/-! ### which option combinations are accepted at all (Model/DirApply.lean; compared with the generator's
    accept/reject decision on every case of this check — exhaustively in the thorough tier) -/
namespace Genq.DirApply
open Genq.Conv (Dir Kind)

/-- **C10_omitempty_only_on_variables** — `omitempty` (true or false) written on a selected field is refused, whatever
    else the directive says; on a variable it is refused exactly when the variable's type is non-null -/
theorem C10_omitempty_only_on_variables (sr op_ : Bool) (node forField op : Dir) (h : validateOp op forField = .ok)
    (ho : node.omitempty.isSome = true) :
    (∀ k b hf os, verdict sr op_ (.field k b hf os) node forField op = .omitemptyOnField) ∧
    (∀ k b fs, verdict sr op_ (.var k true b fs) node forField op = .omitemptyNonNull) := by
  constructor
  · intro k b hf os
    simp [verdict, h, validateNode, ho]
  · intro k b fs
    simp [verdict, h, validateNode, ho]

/-- **C10_bind_never_on_operations** — `bind` on a whole operation is refused (unless its `for:` entry is refused first) -/
theorem C10_bind_never_on_operations (sr op_ : Bool) (t : Target) (node forField op : Dir)
    (hf : forField.struct.isSome = false) (hf2 : forField.flatten.isSome = false)
    (hf3 : (forField.typename != "" && bindReal forField.bind) = false) (hb : op.bind ≠ "") :
    verdict sr op_ t node forField op = .opBind := by
  have : validateOp op forField = .opBind := by
    simp [validateOp, hf, hf2, hb]
    simpa using hf3
  simp [verdict, this]

/-- **C10_pointer_always_applicable** — directives that set nothing but `pointer` (on the node, in the `for:` entry,
    on the operation) are accepted on every selected field and on every variable of scalar or enum type -/
theorem C10_pointer_always_applicable (sr op_ : Bool) (p1 p2 p3 : Option Bool) :
    (∀ k b hf os, accepts sr op_ (.field k b hf os) { pointer := p1 } { pointer := p2 } { pointer := p3 } = true) ∧
    (∀ nn b fs, accepts sr op_ (.var .scalar nn b fs) { pointer := p1 } { pointer := p2 } { pointer := p3 } = true) := by
  constructor
  · intro k b hf os
    simp [accepts, verdict, validateOp, validateNode, Conv.merge, Conv.fillString, bindReal]
  · intro nn b fs
    simp [accepts, verdict, validateOp, validateNode, Conv.merge, Conv.fillString, bindReal]

-- non-vacuity / documented examples
example : verdict false false (.field .scalar false false false) { omitempty := some true } {} {} = .omitemptyOnField := by decide
example : verdict false false (.var .input false false [⟨false, false⟩, ⟨true, false⟩]) {} {} { pointer := some true }
    = .inputPointerNeedsOmitempty := by decide
example : accepts true false (.var .input false false [⟨false, false⟩, ⟨true, false⟩]) {} {} { pointer := some true } = true := by decide

end Genq.DirApply
