/-
C08 — generation is a deterministic function of the config and the files it names.
-/
import Genq.Model.Pipeline
import Genq.Model.GenSkel
import Genq.Extracted.Gen
import Genq.Model.ConvSkel
import Genq.Extracted.Conv
namespace Genq.Pipeline

section Lemmas
theorem le_trans' (a b c : Nat) : decide (a ≤ b) = true → decide (b ≤ c) = true → decide (a ≤ c) = true := by
  simp; omega
theorem le_total' (a b : Nat) : (decide (a ≤ b) || decide (b ≤ a)) = true := by
  simp; omega

theorem sort_perm_eq (a b : List Nat) (h : a.Perm b) :
    a.mergeSort (fun x y => decide (x ≤ y)) = b.mergeSort (fun x y => decide (x ≤ y)) := by
  apply List.Perm.eq_of_pairwise (le := fun x y => decide (x ≤ y) = true)
  · intro x y _ _ h1 h2
    simp at h1 h2; omega
  · exact List.pairwise_mergeSort le_trans' le_total' a
  · exact List.pairwise_mergeSort le_trans' le_total' b
  · exact (List.mergeSort_perm a _).trans (h.trans (List.mergeSort_perm b _).symm)
end Lemmas

/-- **C08_skeleton_tie** — expandFilenames sorts what it collected from the map, and WriteTypes
    sorts the type-map keys, in the source as extracted on this run. -/
theorem C08_skeleton_tie :
    Extracted.expandFilenamesSkeleton = GenSkel.expandFilenamesSkeleton ∧
    Extracted.writeTypesSkeleton = GenSkel.writeTypesSkeleton := ⟨rfl, rfl⟩

/-- **C08_perm_invariant** — whatever the order in which the file system, the globs or Go's map
    iteration enumerate the schema and operation files, the generator sees the same lists:
    for every downstream function `g` the output is the same. -/
theorem C08_perm_invariant {Out} (g : List FileId → List FileId → Out)
    (s s' o o' : List FileId) (hs : s.Perm s') (ho : o.Perm o') :
    generate true g s o = generate true g s' o' := by
  simp only [generate, expand, if_true]
  rw [sort_perm_eq s s' hs, sort_perm_eq o o' ho]

/-- the lists the generator sees are the enumerated files, each exactly as often (none dropped,
    none invented), in increasing order -/
theorem C08_expand_is_sorted_perm (enumerated : List FileId) :
    (expand true enumerated).Perm enumerated ∧ (expand true enumerated).Pairwise (· ≤ ·) := by
  simp only [expand, if_true]
  refine ⟨List.mergeSort_perm _ _, ?_⟩
  have := List.pairwise_mergeSort le_trans' le_total' enumerated
  exact this.imp (by intro a b h; simpa using h)

/-- F-08 on the pinned commit: without the sort two enumerations of the same files give
    different outputs for a downstream function that depends on order (as conversion does) -/
theorem C08_pinned_order_dependence_witness :
    ∃ (g : List FileId → List FileId → List FileId) (o o' : List FileId),
      o.Perm o' ∧ generate false g [] o ≠ generate false g [] o' :=
  ⟨fun _ o => o, [1, 2], [2, 1], by decide, by decide⟩

-- non-vacuity
example : (generate true (fun s o => (s, o)) [3, 1, 2] [9, 4]).1.Perm [3, 1, 2] := (C08_expand_is_sorted_perm _).1
example : generate true (fun s o => (s, o)) [3, 1, 2] [9, 4] = generate true (fun s o => (s, o)) [2, 3, 1] [4, 9] :=
  C08_perm_invariant _ _ _ _ _ (by decide) (by decide)

end Genq.Pipeline

namespace Genq

/-- **C08_imports_tie** — addImportFor / ref, as in /repo now (regenerated on every run), equal to the copy the model was written from -/
theorem C08_imports_tie : Extracted.importsSkeleton = ConvSkel.importsSkeleton := rfl

end Genq
