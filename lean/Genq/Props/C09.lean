/-
C09 — distinct selections never share a Go type; each operation's types are stable.
-/
import Genq.Model.TypeMap
import Genq.Extracted.Inventory
import Genq.Proofs.TypeNames
import Genq.Model.ConvSkel
import Genq.Extracted.Conv
namespace Genq.TypeMap

mutual
theorem selMatch_iff : ∀ a b : Sel, selMatch a b = true ↔ a = b
  | .field a n s, .field a' n' s' => by
    simp only [selMatch, Bool.and_eq_true, beq_iff_eq, selsMatch_iff s s', Sel.field.injEq]
    constructor
    · rintro ⟨⟨h1, h2⟩, h3⟩; exact ⟨h2, h1, h3⟩
    · rintro ⟨h2, h1, h3⟩; exact ⟨⟨h1, h2⟩, h3⟩
  | .inline c s, .inline c' s' => by
    simp only [selMatch, Bool.and_eq_true, beq_iff_eq, selsMatch_iff s s', Sel.inline.injEq]
  | .spread n, .spread n' => by simp only [selMatch, beq_iff_eq, Sel.spread.injEq]
  | .field _ _ _, .inline _ _ => by simp [selMatch]
  | .field _ _ _, .spread _ => by simp [selMatch]
  | .inline _ _, .field _ _ _ => by simp [selMatch]
  | .inline _ _, .spread _ => by simp [selMatch]
  | .spread _, .field _ _ _ => by simp [selMatch]
  | .spread _, .inline _ _ => by simp [selMatch]
theorem selsMatch_iff : ∀ a b : List Sel, selsMatch a b = true ↔ a = b
  | [], [] => by simp [selsMatch]
  | x :: xs, y :: ys => by
    simp only [selsMatch, Bool.and_eq_true, selMatch_iff x y, selsMatch_iff xs ys, List.cons.injEq]
  | [], _ :: _ => by simp [selsMatch]
  | _ :: _, [] => by simp [selsMatch]
end

/-- **C09_match_iff_same_selection** — selectionsMatch accepts exactly identical selections (same
    fields, aliases, order and fragment structure at every depth): never a prefix, a permutation
    or a selection differing only deep inside an inline fragment -/
theorem C09_match_iff_same_selection (a b : List Sel) : selsMatch a b = true ↔ a = b :=
  selsMatch_iff a b

theorem compatible_iff (need e : Need) : compatible need e = true ↔ e = need := by
  cases need; cases e
  simp only [compatible, Bool.and_eq_true, beq_iff_eq, selsMatch_iff, Need.mk.injEq]
  constructor
  · rintro ⟨h1, h2⟩; exact ⟨h1, h2.symm⟩
  · rintro ⟨h1, h2⟩; exact ⟨h1, h2.symm⟩

/-- **C09_reuse_only_same_need** — a lookup reuses an existing Go type only when that type was
    declared for the same GraphQL type and the same selection; any other existing entry under the
    requested name is reported as a conflict -/
theorem C09_reuse_only_same_need (m : TMap) (n : String) (need : Need) :
    (getOut m n need = .reuse ↔ lookup n m = some need) ∧
    (getOut m n need = .conflict ↔ ∃ e, lookup n m = some e ∧ e ≠ need) := by
  unfold getOut
  cases h : lookup n m with
  | none => simp
  | some e =>
    by_cases hc : compatible need e = true
    · have he := (compatible_iff need e).1 hc
      subst he
      simp [hc]
    · have hne : e ≠ need := fun he => hc ((compatible_iff need e).2 he)
      simp [hc, hne]

theorem getOut_cases (m : TMap) (n : String) (need : Need) :
    getOut m n need = .absent ∨ getOut m n need = .reuse ∨ getOut m n need = .conflict := by
  unfold getOut
  cases lookup n m with
  | none => simp
  | some e => by_cases hc : compatible need e = true <;> simp [hc]

/-- after a resolved request the map holds exactly the requested declaration under its name -/
theorem step_resolved_lookup (m : TMap) (r : Req) (hf : r.fresh m) (h : (step m r).2.resolved = true) :
    lookup r.name (step m r).1 = some r.need := by
  cases r with
  | get n need =>
    simp only [step, Req.name, Req.need] at *
    have := (C09_reuse_only_same_need m n need).1
    rcases getOut_cases m n need with hg | hg | hg <;> simp_all [Out.resolved]
  | add n need =>
    simp only [step, Req.name, Req.need] at *
    have := (C09_reuse_only_same_need m n need).1
    rcases getOut_cases m n need with hg | hg | hg <;> simp_all [Out.resolved, lookup]
  | write n need => simp [step, Req.name, Req.need, lookup]
  | peek n need =>
    simp only [step, Req.name, Req.need] at *
    simp only [Req.fresh] at hf
    rcases hf with hf | hf
    · rw [hf] at h; simp [Out.resolved] at h
    · exact hf

/-- entries are never changed by a step whose write (if it is one) is fresh -/
theorem step_keeps (m : TMap) (r : Req) (k : String) (e : Need) (hk : lookup k m = some e)
    (hf : r.fresh m) :
    lookup k (step m r).1 = some e := by
  cases r with
  | get n need => simpa [step] using hk
  | add n need =>
    simp only [step]
    cases hg : getOut m n need <;> simp only [] <;> try exact hk
    -- inserted: n was absent
    have hnone : lookup n m = none := by
      unfold getOut at hg
      cases hl : lookup n m with
      | none => rfl
      | some e' => rw [hl] at hg; simp only [] at hg; split at hg <;> cases hg
    simp only [lookup]
    split
    · next heq => subst heq; rw [hnone] at hk; cases hk
    · exact hk
  | write n need =>
    simp only [step, lookup]
    simp only [Req.fresh] at hf
    split
    · next heq =>
      subst heq
      rcases hf with h | h
      · rw [h] at hk; cases hk
      · rw [h] at hk; exact hk
    · exact hk
  | peek n need => simpa [step] using hk

theorem run_keeps : ∀ (ops : List Req) (m m' : TMap) (k : String) (e : Need),
    WritesFresh m ops → run m ops = some m' → lookup k m = some e → lookup k m' = some e
  | [], m, m', k, e, _, hr, hk => by simp only [run, Option.some.injEq] at hr; subst hr; exact hk
  | r :: rs, m, m', k, e, hw, hr, hk => by
    simp only [run] at hr
    have hstep := step_keeps m r k e hk hw.1
    generalize hs : step m r = s at hr hstep
    obtain ⟨m1, o⟩ := s
    have hw2 : WritesFresh m1 rs := by have := hw.2; rw [hs] at this; exact this
    cases o <;> simp only [] at hr
    all_goals first
      | exact run_keeps rs m1 m' k e hw2 hr hstep
      | cases hr

/-- **C09_resolved_requests_hold** — in a generation that succeeds (no conflict) and whose
    unchecked fragment writes hit free names, every place that resolved to a Go type name finds,
    in the final map, exactly the declaration for its own GraphQL type and selection -/
theorem C09_resolved_requests_hold : ∀ (ops : List Req) (m m' : TMap),
    WritesFresh m ops → run m ops = some m' →
    ∀ p ∈ resolvedReqs m ops, lookup p.1 m' = some p.2
  | [], _, _, _, _, p, hp => by simp [resolvedReqs] at hp
  | r :: rs, m, m', hw, hr, p, hp => by
    simp only [run] at hr
    simp only [resolvedReqs] at hp
    have hres := step_resolved_lookup m r hw.1
    generalize hs : step m r = s at hr hp hres
    obtain ⟨m1, o⟩ := s
    have hw2 : WritesFresh m1 rs := by have := hw.2; rw [hs] at this; exact this
    have hrun : run m1 rs = some m' := by
      cases o <;> simp only [] at hr <;> first | exact hr | cases hr
    simp only [List.mem_append] at hp
    rcases hp with hp | hp
    · by_cases hro : o.resolved = true
      · simp only [hro, if_true, List.mem_singleton] at hp
        subst hp
        exact run_keeps rs m1 m' _ _ hw2 hrun (hres hro)
      · simp [hro] at hp
    · exact C09_resolved_requests_hold rs m1 m' hw2 hrun p hp

/-- **C09_shared_name_same_need** — two places that were given the same Go type name need the
    same declaration: same GraphQL type, same selection -/
theorem C09_shared_name_same_need (ops : List Req) (m' : TMap)
    (hw : WritesFresh [] ops) (hr : run [] ops = some m')
    (n : String) (d1 d2 : Need)
    (h1 : (n, d1) ∈ resolvedReqs [] ops) (h2 : (n, d2) ∈ resolvedReqs [] ops) : d1 = d2 := by
  have a := C09_resolved_requests_hold ops [] m' hw hr _ h1
  have b := C09_resolved_requests_hold ops [] m' hw hr _ h2
  simp only [] at a b
  rw [a] at b
  exact Option.some.inj b

/-- **C09_alone_vs_together** — the declaration behind every name an operation uses is the same
    whether its requests run alone or after any other operations' requests -/
theorem C09_alone_vs_together (others mine : List Req) (mAlone mAll mMid : TMap)
    (hwA : WritesFresh [] mine) (hrA : run [] mine = some mAlone)
    (_hrO : run [] others = some mMid)
    (hwT : WritesFresh mMid mine) (hrT : run mMid mine = some mAll)
    (p : String × Need) (hp : p ∈ resolvedReqs [] mine) (hp' : p ∈ resolvedReqs mMid mine) :
    lookup p.1 mAll = lookup p.1 mAlone := by
  rw [C09_resolved_requests_hold mine [] mAlone hwA hrA p hp,
      C09_resolved_requests_hold mine mMid mAll hwT hrT p hp']

/-- checked accesses only: getType / addType -/
def Req.checked : Req → Bool
  | .get _ _ | .add _ _ => true
  | _ => false

theorem writesFresh_of_checked : ∀ (ops : List Req) (m : TMap), (∀ r ∈ ops, r.checked = true) → WritesFresh m ops
  | [], _, _ => trivial
  | r :: rs, m, h => by
    refine ⟨?_, writesFresh_of_checked rs _ (fun x hx => h x (List.mem_cons_of_mem _ hx))⟩
    have := h r (List.mem_cons_self ..)
    cases r <;> simp_all [Req.checked, Req.fresh]

/-- **C09_tie_typemap_accesses** (regenerated from /repo on every run) — in package generate the
    type map is assigned only in addType and, during conversion, read only in getType (WriteTypes
    reads it to print the result): every access the conversion makes is a checked one -/
theorem C09_tie_typemap_accesses :
    Extracted.typeMapAccesses =
      [("WriteTypes", "range"), ("WriteTypes", "read"), ("addType", "write"), ("getType", "read")] := by decide

/-- **C09_shared_name_same_need_checked** — for the code as it stands (all accesses checked, see
    C09_tie_typemap_accesses) the statement holds without any side condition -/
theorem C09_shared_name_same_need_checked (ops : List Req) (m' : TMap)
    (hc : ∀ r ∈ ops, r.checked = true) (hr : run [] ops = some m')
    (n : String) (d1 d2 : Need)
    (h1 : (n, d1) ∈ resolvedReqs [] ops) (h2 : (n, d2) ∈ resolvedReqs [] ops) : d1 = d2 :=
  C09_shared_name_same_need ops m' (writesFresh_of_checked ops [] hc) hr n d1 d2 h1 h2

/-- the full statement — without the side condition on unchecked accesses — is FALSE of the code as
    it stood: a named fragment's type was written into the map without any check and looked up by
    bare name without any check, so a fragment named like an already generated type silently
    shares that name (finding F-09) -/
def C09_shared_name_same_need_full : Prop :=
  ∀ (ops : List Req) (m' : TMap), run [] ops = some m' →
    ∀ n d1 d2, (n, d1) ∈ resolvedReqs [] ops → (n, d2) ∈ resolvedReqs [] ops → d1 = d2

theorem C09_full_refuted : ¬ C09_shared_name_same_need_full := by
  intro h
  have := h [.add "QUser" ⟨"User", [.field "id" "id" []]⟩, .write "QUser" ⟨"Query", [.field "me" "me" []]⟩]
    _ rfl "QUser" ⟨"User", [.field "id" "id" []]⟩ ⟨"Query", [.field "me" "me" []]⟩
    (by simp [resolvedReqs, step, getOut, lookup, Out.resolved, Req.name, Req.need])
    (by simp [resolvedReqs, step, getOut, lookup, Out.resolved, Req.name, Req.need])
  simp at this

theorem C09_full_refuted_by_peek : ¬ C09_shared_name_same_need_full := by
  intro h
  have := h [.add "QUser" ⟨"User", [.field "id" "id" [], .field "name" "name" []]⟩, .peek "QUser" ⟨"User", [.field "id" "id" []]⟩]
    _ rfl "QUser" ⟨"User", [.field "id" "id" [], .field "name" "name" []]⟩ ⟨"User", [.field "id" "id" []]⟩
    (by simp [resolvedReqs, step, getOut, lookup, Out.resolved, Req.name, Req.need])
    (by simp [resolvedReqs, step, getOut, lookup, Out.resolved, Req.name, Req.need])
  simp at this

-- non-vacuity: a run with reuse, a conflict-free insert and a fresh write meets the hypotheses
example : WritesFresh [] [.add "A" ⟨"T", []⟩, .get "A" ⟨"T", []⟩, .write "F" ⟨"T", []⟩] ∧
    (run [] [.add "A" ⟨"T", []⟩, .get "A" ⟨"T", []⟩, .write "F" ⟨"T", []⟩]).isSome = true := by
  simp [WritesFresh, Req.fresh, step, getOut, lookup, compatible, selsMatch, run]

end Genq.TypeMap

/-! ### the names themselves (generate/names.go, Model/TypeNames.lean; tied by the driver op `names.typeName`,
    which the harness compares with the Go type of every composite field of generated programs) -/
namespace Genq.Names

/-- **C09_names_start_with_operation** — every type generated under an operation or fragment carries that
    operation's name in front, whatever path of fields and types leads to it -/
theorem C09_names_start_with_operation (root : Name) (steps : List (Name × Name)) (tn : Name) (algo : Casing) :
    root <+: makeTypeName (walk root steps algo) tn algo ∧ root <+: makeLongTypeName (walk root steps algo) tn algo :=
  ⟨makeTypeName_starts_with_root root steps tn algo, makeLongTypeName_starts_with_root root steps tn algo⟩

/-- **C09_unrelated_operations_never_share_names** — two operations (or fragments) neither of whose names is a
    prefix of the other's cannot collide on any generated name, at any depth, under any casing -/
theorem C09_unrelated_operations_never_share_names (r1 r2 : Name) (s1 s2 : List (Name × Name)) (t1 t2 : Name)
    (a1 a2 : Casing) (h12 : ¬ r1 <+: r2) (h21 : ¬ r2 <+: r1) :
    makeTypeName (walk r1 s1 a1) t1 a1 ≠ makeTypeName (walk r2 s2 a2) t2 a2 :=
  names_of_unrelated_roots_differ r1 r2 s1 s2 t1 t2 a1 a2 h12 h21

/-- **C09_name_ends_with_type** — below the operation's own struct a generated name ends with the cased GraphQL
    type name (shortening only ever drops a repetition of it) -/
theorem C09_name_ends_with_type (p : Prefix) (tn : Name) (algo : Casing) (hp : 1 < p.length) :
    applyCasing tn algo true <:+ makeTypeName p tn algo ∧
    (makeTypeName p tn algo = makeLongTypeName p tn algo ∨
     makeTypeName p tn algo ++ applyCasing tn algo true = makeLongTypeName p tn algo) :=
  ⟨makeTypeName_ends_with_type p tn algo hp, makeTypeName_short_or_long p tn algo⟩

/-- **C09_naming_is_not_injective** — the naming scheme alone does NOT keep different places apart (the TODO in
    names.go): `query Get { viewer {…} }` with `viewer: CurrentUser` and `query GetViewer { currentUser {…} }`
    with `currentUser: User` both ask for `GetViewerCurrentUser`.  So the property rests on the type map's check
    (C09_reuse_only_same_need …): such a clash must end in a reported conflict. -/
theorem C09_naming_is_not_injective :
    makeTypeName (walk "Get".toList [("Query".toList, "viewer".toList)] .default) "CurrentUser".toList .default =
    makeTypeName (walk "GetViewer".toList [("Query".toList, "currentUser".toList)] .default) "User".toList .default ∧
    "CurrentUser".toList ≠ "User".toList := by decide

-- non-vacuity of C09_unrelated_operations_never_share_names / C09_name_ends_with_type
example : ¬ "GetA".toList <+: "GetB".toList ∧ ¬ "GetB".toList <+: "GetA".toList ∧
    1 < (walk "GetA".toList [("Query".toList, "me".toList)] .default).length := by decide

end Genq.Names

namespace Genq

/-- **C09_naming_tie** — names.go typeNameParts / nextPrefix / makeTypeName / makeLongTypeName as Model/TypeNames.lean transcribes them, as in /repo now (regenerated on every run), equal to the copy the model was written from -/
theorem C09_naming_tie : Extracted.namingSkeleton = ConvSkel.namingSkeleton := rfl

/-- **C09_typemap_tie** — getType / addType: look up, compare GraphQL type and selection, insert, as in /repo now (regenerated on every run), equal to the copy the model was written from -/
theorem C09_typemap_tie : Extracted.typeMapSkeleton = ConvSkel.typeMapSkeleton := rfl

/-- **C09_selectionsMatch_tie** — selectionsMatch, as in /repo now (regenerated on every run), equal to the copy the model was written from -/
theorem C09_selectionsMatch_tie : Extracted.selectionsMatchSkeleton = ConvSkel.selectionsMatchSkeleton := rfl

end Genq
