/-
C19 — decoding untrusted response bytes fails cleanly, never panics or mis-types.
Proved here: the dispatch of the interface unmarshal helper on arbitrary JSON values.  That
Unmarshal as a whole neither panics nor loops on arbitrary bytes is decided on the compiled
code (mutated responses and raw byte mutations, with recover and a watchdog).
-/
import Genq.Model.Types
namespace Genq.Types

/-- **C19_bad_typename_is_error** — for every JSON value other than null and every list of
    implementations: unless the value is an object whose __typename decodes to the name of
    one of the implementations, the helper returns an error — never a value of some type. -/
theorem C19_bad_typename_is_error (impls : List (Name × Name)) (j : J) (tn g : Name)
    (h : decodeIface impls j = .impl tn g) :
    ∃ kvs, j = .obj kvs ∧ typenameOf kvs = some tn ∧ tn ≠ "" ∧ impls.lookup tn = some g := by
  cases j with
  | obj kvs =>
    simp only [decodeIface] at h
    split at h
    · cases h
    · rename_i t ht
      split at h
      · cases h
      · rename_i hne
        split at h
        · rename_i g' hl
          cases h
          exact ⟨kvs, rfl, ht, by simpa using hne, hl⟩
        · cases h
  | null => simp [decodeIface] at h
  | bool b => simp [decodeIface] at h
  | num t => simp [decodeIface] at h
  | str s => simp [decodeIface] at h
  | arr xs => simp [decodeIface] at h

/-- **C19_dispatch_respects_typename** — a successful dispatch yields the implementation
    registered for exactly the __typename present in the input -/
theorem C19_dispatch_respects_typename (impls : List (Name × Name)) (kvs : List (String × J)) (tn g : Name)
    (h : decodeIface impls (.obj kvs) = .impl tn g) : typenameOf kvs = some tn ∧ (tn, g) ∈ impls := by
  obtain ⟨kvs', he, h1, _, h3⟩ := C19_bad_typename_is_error impls _ tn g h
  cases he
  refine ⟨h1, ?_⟩
  clear h h1
  induction impls with
  | nil => cases h3
  | cons kv rest ih =>
    obtain ⟨k, v⟩ := kv
    simp only [List.lookup] at h3
    split at h3
    · rename_i he
      have : tn = k := by simpa using he
      subst this; cases h3; exact List.mem_cons_self
    · exact List.mem_cons_of_mem _ (ih h3)

/-- missing, empty, null or non-string __typename, and names outside the implementation list,
    are errors (the cases the property names, as evaluations) -/
theorem C19_error_cases :
    decodeIface [("User", "QUser")] (.obj [("id", .str "1")]) = .errMissingTypename ∧
    decodeIface [("User", "QUser")] (.obj [("__typename", .str "")]) = .errMissingTypename ∧
    decodeIface [("User", "QUser")] (.obj [("__typename", .null)]) = .errMissingTypename ∧
    decodeIface [("User", "QUser")] (.obj [("__typename", .num "3")]) = .errNotObject ∧
    decodeIface [("User", "QUser")] (.obj [("__typename", .str "Robot")]) = .errUnexpectedType "Robot" ∧
    decodeIface [("User", "QUser")] (.arr []) = .errNotObject ∧
    decodeIface [("User", "QUser")] (.str "User") = .errNotObject ∧
    decodeIface [("User", "QUser")] .null = .nil := by decide

-- non-vacuity
example : decodeIface [("Post", "QPost"), ("User", "QUser")] (.obj [("__typename", .str "User"), ("id", .str "1")]) = .impl "User" "QUser" := by decide

end Genq.Types
