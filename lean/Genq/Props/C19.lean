/-
C19 — decoding untrusted response bytes fails cleanly, never panics or mis-types.
Proved here: the dispatch of the interface unmarshal helper on arbitrary JSON values.  That
Unmarshal as a whole neither panics nor loops on arbitrary bytes is decided on the compiled
code (mutated responses and raw byte mutations, with recover and a watchdog).
-/
import Genq.Model.Types
import Genq.Model.Codec
import Genq.Model.CodecSkel
import Genq.Extracted.Codec
import Genq.Model.ConvSkel
import Genq.Extracted.Conv
namespace Genq.Types

/-- **C19_bad_typename_is_error** — for every JSON value other than null and every list of
    implementations: unless the value is an object whose __typename decodes to the name of
    one of the implementations, the helper returns an error — never a value of some type. -/
theorem C19_bad_typename_is_error (impls : List (Name × Name)) (j : J) (tn g : Name)
    (h : decodeIface impls j = .impl tn g) :
    ∃ kvs, j = .obj kvs ∧ typenameOf kvs = some tn ∧ tn ≠ "" ∧ impls.lookup tn = some g := by
  cases j with
  | obj kvs =>
    simp only [decodeIface] at h
    split at h
    · cases h
    · rename_i t ht
      split at h
      · cases h
      · rename_i hne
        split at h
        · rename_i g' hl
          cases h
          exact ⟨kvs, rfl, ht, by simpa using hne, hl⟩
        · cases h
  | null => simp [decodeIface] at h
  | bool b => simp [decodeIface] at h
  | num t => simp [decodeIface] at h
  | str s => simp [decodeIface] at h
  | arr xs => simp [decodeIface] at h

/-- **C19_dispatch_respects_typename** — a successful dispatch yields the implementation
    registered for exactly the __typename present in the input -/
theorem C19_dispatch_respects_typename (impls : List (Name × Name)) (kvs : List (String × J)) (tn g : Name)
    (h : decodeIface impls (.obj kvs) = .impl tn g) : typenameOf kvs = some tn ∧ (tn, g) ∈ impls := by
  obtain ⟨kvs', he, h1, _, h3⟩ := C19_bad_typename_is_error impls _ tn g h
  cases he
  refine ⟨h1, ?_⟩
  clear h h1
  induction impls with
  | nil => cases h3
  | cons kv rest ih =>
    obtain ⟨k, v⟩ := kv
    simp only [List.lookup] at h3
    split at h3
    · rename_i he
      have : tn = k := by simpa using he
      subst this; cases h3; exact List.mem_cons_self
    · exact List.mem_cons_of_mem _ (ih h3)

/-- missing, empty, null or non-string __typename, and names outside the implementation list,
    are errors (the cases the property names, as evaluations) -/
theorem C19_error_cases :
    decodeIface [("User", "QUser")] (.obj [("id", .str "1")]) = .errMissingTypename ∧
    decodeIface [("User", "QUser")] (.obj [("__typename", .str "")]) = .errMissingTypename ∧
    decodeIface [("User", "QUser")] (.obj [("__typename", .null)]) = .errMissingTypename ∧
    decodeIface [("User", "QUser")] (.obj [("__typename", .num "3")]) = .errNotObject ∧
    decodeIface [("User", "QUser")] (.obj [("__typename", .str "Robot")]) = .errUnexpectedType "Robot" ∧
    decodeIface [("User", "QUser")] (.arr []) = .errNotObject ∧
    decodeIface [("User", "QUser")] (.str "User") = .errNotObject ∧
    decodeIface [("User", "QUser")] .null = .nil := by decide

-- non-vacuity
example : decodeIface [("Post", "QPost"), ("User", "QUser")] (.obj [("__typename", .str "User"), ("id", .str "1")]) = .impl "User" "QUser" := by decide

end Genq.Types

/-! ### the same on the model of the whole generated decoder (Model/Codec.lean) -/
namespace Genq.Codec
open Genq.Types (J)

theorem decImpl_ok : ∀ (impls : Impls) (tn : String) (j : J) (r : Val), decImpl impls tn j = .ok r →
    ∃ t v, findImpl impls tn = some t ∧ dec t j = .ok v ∧ r = .iface tn v
  | .nil, _, _, _, h => by simp [decImpl] at h
  | .cons n t rest, tn, j, r, h => by
    simp only [decImpl] at h
    by_cases hn : (n == tn) = true
    · simp only [hn, if_true] at h
      cases hd : dec t j with
      | error e => rw [hd] at h; cases h
      | ok v =>
        rw [hd] at h
        refine ⟨t, v, by simp [findImpl, hn], hd, ?_⟩
        cases h; rfl
    · simp only [hn, Bool.false_eq_true, if_false] at h
      obtain ⟨t', v, h1, h2, h3⟩ := decImpl_ok rest tn j r h
      exact ⟨t', v, by simp [findImpl, hn, h1], h2, h3⟩

/-- **C19_codec_dispatch_sound** — whatever JSON value the generated decoder is given at an abstract position
    (any depth of the response type), it yields either nil (for null), an error, or the implementation
    registered for exactly the `__typename` string the input object carries — decoded by that implementation's
    own decoder.  No input makes it produce a value of some other implementation. -/
theorem C19_codec_dispatch_sound (impls : Impls) (j : J) (r : Val) (h : dec (.iface impls) j = .ok r) :
    (j = .null ∧ r = .nilIface) ∨
    ∃ o tn t v, j = .obj o ∧ typenameOf o = .ok tn ∧ tn ≠ "" ∧ findImpl impls tn = some t ∧ dec t (.obj o) = .ok v ∧ r = .iface tn v := by
  cases j with
  | null => left; simp [dec] at h; exact ⟨rfl, h.symm⟩
  | obj o =>
    right
    simp only [dec] at h
    cases ht : typenameOf o with
    | error e => rw [ht] at h; cases h
    | ok tn =>
      rw [ht] at h
      simp only at h
      by_cases he : (tn == "") = true
      · simp only [he, if_true] at h; cases h
      · simp only [he, Bool.false_eq_true, if_false] at h
        obtain ⟨t, v, h1, h2, h3⟩ := decImpl_ok impls tn _ r h
        exact ⟨o, tn, t, v, rfl, ht, by simpa using he, h1, h2, h3⟩
  | bool b => simp [dec] at h
  | num n => simp [dec] at h
  | str s => simp [dec] at h
  | arr xs => simp [dec] at h

/-- the decoder is a total function on (type tree, JSON value): the model has no panic outcome, and the
    known finding F-02 is visible in it — a null list of abstract elements becomes an EMPTY slice -/
theorem C19_codec_null_special_list (impls : Impls) : decSpecial (.slice (.iface impls)) .null = .ok (.slice []) := rfl

end Genq.Codec

namespace Genq
/-- **C19_codec_template_tie** — the templates (and FlattenedFields) extracted from /repo on this run are the ones
    the Codec model was written from: an edit of the generated (un)marshaling code breaks this equality even when no
    sampled response behaves differently. -/
theorem C19_codec_template_tie :
    Extracted.unmarshalTmpl = CodecSkel.unmarshalTmpl ∧
    Extracted.unmarshalHelperTmpl = CodecSkel.unmarshalHelperTmpl ∧
    Extracted.flattenedFieldsSkeleton = CodecSkel.flattenedFieldsSkeleton := ⟨rfl, rfl, rfl⟩
end Genq

namespace Genq

/-- **C19_possible_types_tie** — possibleObjectTypes: what the __typename switches list, as in /repo now (regenerated on every run), equal to the copy the model was written from -/
theorem C19_possible_types_tie : Extracted.convertTypeSkeleton = ConvSkel.convertTypeSkeleton := rfl

end Genq
