/-
Line-protocol driver: one JSON object per input line ↦ one JSON object per output line.
Every op is a thin wrapper (parsing/printing only) around a Model/Spec definition.
Core-only (no Mathlib) so it links as a native executable.
-/
import Lean.Data.Json
import Genq.Driver.Ops
open Lean

partial def loop (hin hout : IO.FS.Stream) : IO Unit := do
  let line ← hin.getLine
  if line.isEmpty then return ()
  let out := match Json.parse line with
    | .error e => Json.mkObj [("error", Json.str s!"parse: {e}")]
    | .ok j => Genq.Driver.dispatch j
  hout.putStrLn out.compress
  hout.flush
  loop hin hout

def main : IO Unit := do
  loop (← IO.getStdin) (← IO.getStdout)
